#!/bin/bash
# re-verifies every kept seed against the current /repo HEAD (a later fix may neutralise a seed)
cd "$(dirname "$0")/.."
for d in seeded/C*; do
  out=$(tools/verify_seed.sh $d/patch.diff $d/demo.py 2>&1 | tr '\n' ' ')
  ok=no; echo "$out" | grep -q "demo_without_patch_exit=0 patch_applies=yes" && echo "$out" | grep -q " passed" && ! echo "$out" | grep -q "failed" && ! echo "$out" | grep -q "demo_with_patch_exit=0" && ok=yes
  echo "$(basename $d) ok=$ok $out" | cut -c1-220
done
