"""Writes seeded/TABLE.md from the meta.json files."""
import json, os
rows = []
for sid in sorted(os.listdir("/verif/seeded")):
    mp = f"/verif/seeded/{sid}/meta.json"
    if not os.path.exists(mp): continue
    m = json.load(open(mp))
    notes = m.get("what_it_needs_to_manifest_and_mechanism", "")
    first = next((l.strip("# ").strip() for l in notes.splitlines() if l.strip() and not l.startswith("#")), "")[:160]
    cb = m.get("caught_by") or {}
    caught = [f"{c} ({', '.join(v['refuted_obligations'][:3])})" for c, v in cb.items() if v.get("violations")]
    missed = [c for c, v in cb.items() if not v.get("violations")]
    rows.append(f"| {sid} | {first} | {'; '.join(caught) or '**not caught**' if cb else 'not run yet'} | {', '.join(missed)} |")
open("/verif/seeded/TABLE.md", "w").write("# Seeded changes and the checks that catch them\n\n| seed | what it is | caught by (refuted obligations) | ran without alarm |\n|---|---|---|---|\n" + "\n".join(rows) + "\n")
print(len(rows), "rows")
