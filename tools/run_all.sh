#!/bin/bash
# usage: run_all.sh quick|thorough [ids...]   -- sequential run of the registered checks, one summary line each
TIER=$1; shift
IDS=${@:-C01 C02 C03 C04 C05 C06 C07 C08 C09 C10 C11 C13 C14 C15 C16 C17 C18 C19 C20}
cd "$(dirname "$0")/.."
for id in $IDS; do
  s=$(date +%s)
  ./check $id --tier $TIER > /tmp/run_${TIER}_$id.log 2>&1; rc=$?
  e=$(date +%s)
  echo "$id exit=$rc $((e-s))s $(grep '^SUMMARY' /tmp/run_${TIER}_$id.log | cut -c1-220)"
done
