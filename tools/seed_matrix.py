"""seed_matrix.py [seed ids...]: runs, for every kept seed, the quick check of its property (plus listed extra checks) against a
scratch worktree with the patch applied (never /repo itself) and records which checks raise a VIOLATION in seeded/<id>/meta.json."""
import json, os, subprocess, sys, tempfile, shutil
ROOT = "/verif"
EXTRA = {"C02": ["C01"], "C04": ["C18"], "C06": ["C05"], "C07": ["C02"], "C11": ["C13"], "C14": ["C13"], "C20": ["C13", "C18"], "C08": ["C03"]}
ids = sys.argv[1:] or sorted(os.listdir(f"{ROOT}/seeded"))
for sid in ids:
    d = f"{ROOT}/seeded/{sid}"
    meta = json.load(open(f"{d}/meta.json"))
    pid = meta["property"]
    if meta.get("caught_by") and not os.environ.get("SM_FORCE"):
        print(sid, "already done"); continue
    wt = tempfile.mkdtemp(prefix="sm_", dir="/tmp")
    os.rmdir(wt)
    subprocess.run(["git", "-C", "/repo", "worktree", "add", "--detach", wt, "HEAD", "-q"], check=True)
    try:
        r = subprocess.run(["git", "-C", wt, "apply", f"{d}/patch.diff"])
        if r.returncode:
            r = subprocess.run(["git", "-C", wt, "apply", "--3way", f"{d}/patch.diff"])
        if r.returncode:
            print(sid, "PATCH DOES NOT APPLY"); continue
        res = {}
        for chk in [pid] + ([] if os.environ.get("SM_OWN_ONLY") else EXTRA.get(pid, [])):
            env = dict(os.environ, VERIF_REPO_SRC=f"{wt}/src", VERIF_BUILD_DIR=f"/tmp/sm_build_{sid}", VERIF_JOBS=os.environ.get("SM_JOBS", "8"))
            p = subprocess.run([f"{ROOT}/check", chk, "--tier", "quick", "--no-evidence"], capture_output=True, text=True, env=env, cwd=ROOT)
            viol = [l for l in p.stdout.splitlines() if l.startswith("REFUTED")]
            res[chk] = {"exit": p.returncode, "violations": len([l for l in p.stdout.splitlines() if l.startswith("VIOLATION")]),
                        "refuted_obligations": sorted({l.split("obligation=")[1].split()[0] for l in viol})[:8]}
            print(sid, chk, res[chk], flush=True)
            if chk == pid and p.returncode == 1:
                pass
        meta["caught_by"] = res
        meta["ran"] = "tools/seed_matrix.py: patch applied in a scratch worktree of /repo HEAD, quick checks run with VERIF_REPO_SRC pointing at it"
        json.dump(meta, open(f"{d}/meta.json", "w"), indent=1)
        shutil.rmtree(f"/tmp/sm_build_{sid}", ignore_errors=True)
    finally:
        subprocess.run(["git", "-C", "/repo", "worktree", "remove", "--force", wt])
        shutil.rmtree(wt, ignore_errors=True)
