"""Developer aid (NOT a check): runs every xh obligation body natively on random arguments that satisfy its preconditions, to
reconcile a new harness/reference with the real code before the solver is asked.  usage: native_sweep.py <Cxx> [substr] [n]"""
import importlib, importlib.util, os, random, re, sys
sys.path.insert(0, '/verif')
pid = sys.argv[1]; only = sys.argv[2] if len(sys.argv) > 2 else ""; N = int(sys.argv[3]) if len(sys.argv) > 3 else 400
plan = importlib.import_module(f"props.{pid}").build(os.environ.get("TIER", "quick"), 0)
rnd = random.Random(7)
ATOMS = [None, True, False, 0, 1, -1, 2, 5, -2, -3, -4, 91, 92, 0.0, 1.5, "", "a", "ab", "1", b"", b"a"]
def gen(tp):
    tp = tp.strip()
    if tp == "bool": return rnd.random() < 0.5
    if tp == "int": return rnd.choice([-4, -3, -2, -1, 0, 0, 1, 2, 3, 4, 5, 6, 7, 8, 9, 11, 15, 91, 92])
    if tp == "str": return rnd.choice(["", "a", "ab", "1", "b", "A", "a|", "bc"])
    if tp.startswith("List[List[bool]]"): return [[rnd.random() < 0.5 for _ in range(5)] for _ in range(3)]
    if tp.startswith("List[int]"): return [gen("int") for _ in range(rnd.randrange(0, 4))]
    if tp.startswith("List[bool]"): return [gen("bool") for _ in range(rnd.randrange(0, 4))]
    return rnd.choice(ATOMS)
d = f"/tmp/nsweep/{pid}"; os.makedirs(d, exist_ok=True)
for m in plan.modules:
    obs = [o for o in m.obs if o.kind == "xh" and only in o.name]
    if not obs: continue
    path = f"{d}/{m.key}.py"; open(path, "w").write(m.render())
    spec = importlib.util.spec_from_file_location(m.key, path); mod = importlib.util.module_from_spec(spec); sys.modules[m.key] = mod
    try: spec.loader.exec_module(mod)
    except Exception as e:
        print(m.key, "IMPORT FAIL", repr(e)[:300]); continue
    for ob in obs:
        fn = getattr(mod, "_b_" + ob.name); doc = getattr(mod, "ob_" + ob.name).__doc__
        pres = [l.strip()[4:].strip() for l in doc.splitlines() if l.strip().startswith("pre:")]
        from vf.gen import _split_params
        params = [(p.split(":")[0].strip(), p.split(":", 1)[1]) for p in _split_params(ob.params)]
        tried = ok = 0; bad = None
        for _ in range(N * 30):
            if ok >= N: break
            args = {n: gen(t) for n, t in params}
            try:
                if not all(eval(p, dict(mod.__dict__), args) for p in pres): continue
            except Exception: continue
            ok += 1
            try: r = fn(**args)
            except Exception as e: r = "EXC " + repr(e)[:150]
            if r is not True: bad = (args, r); break
        print(f"{ob.name:40s} sampled={ok:4d}", "OK" if bad is None else f"FAIL {bad}")
