"""mutants.py gen <n> <seed> | suite | check   -- systematic (machine-generated) mutants of the anchored source files.

Complements the hand-made seeds of seeded/: first-order AST mutants (comparison / boolean / constant / statement-deletion
operators) of the files the properties are anchored in.  Stage `suite` keeps the mutants the pinned test suite does NOT kill
(run in scratch worktrees under /tmp, never /repo); stage `check` runs the quick checks of the properties anchored in the mutated
file against each survivor (VERIF_REPO_SRC) and records which check raises a VIOLATION.  Survivors no check catches are triaged
by hand (equivalent mutant / outside every property / missed -> extension).  State lives in /tmp/mut (scratch), the summary that
is kept is written to seeded/MUTANTS.md by `report`.
"""
import ast, copy, json, os, random, subprocess, sys, shutil, concurrent.futures as cf

ROOT = "/verif"
WORK = "/tmp/mut"
COST = {"C10": 13, "C14": 18, "C13": 27, "C17": 44, "C16": 65, "C05": 68, "C09": 83, "C15": 91, "C19": 97, "C03": 105, "C01": 124,
        "C20": 146, "C07": 149, "C02": 164, "C08": 171, "C06": 209, "C18": 287, "C04": 399, "C11": 411}
SKIP_FUNCS = ("__repr__", "_generate_json_schema", "__str__", "_get_allowed_kwargs")


def anchors():
    m = {}
    for l in open(f"{ROOT}/properties.jsonl"):
        p = json.loads(l)
        if p["id"] == "C12":
            continue
        for f in p["anchors"]["files"]:
            if f.startswith("src/"):
                m.setdefault(f, []).append(p["id"])
    return m


SWAP = {ast.Eq: ast.NotEq, ast.NotEq: ast.Eq, ast.Lt: ast.LtE, ast.LtE: ast.Lt, ast.Gt: ast.GtE, ast.GtE: ast.Gt,
        ast.Is: ast.IsNot, ast.IsNot: ast.Is, ast.In: ast.NotIn, ast.NotIn: ast.In}


class Sites(ast.NodeVisitor):
    """collects (kind, node id path) mutation sites outside skipped functions"""
    def __init__(self):
        self.sites = []
        self.stack = []

    def visit_FunctionDef(self, node):
        if node.name in SKIP_FUNCS:
            return
        self.stack.append(node.name)
        self.generic_visit(node)
        self.stack.pop()

    visit_AsyncFunctionDef = visit_FunctionDef

    def add(self, node, kind):
        if self.stack:
            self.sites.append((kind, node.lineno, node.col_offset, type(node).__name__, ".".join(self.stack)))

    def visit_Compare(self, node):
        if len(node.ops) == 1 and type(node.ops[0]) in SWAP:
            self.add(node, "cmp")
        self.generic_visit(node)

    def visit_BoolOp(self, node):
        self.add(node, "bool")
        self.generic_visit(node)

    def visit_UnaryOp(self, node):
        if isinstance(node.op, ast.Not):
            self.add(node, "not")
        self.generic_visit(node)

    def visit_Constant(self, node):
        if node.value is True or node.value is False:
            self.add(node, "const")
        elif type(node.value) is int and node.value in (0, 1, 2):
            self.add(node, "int")

    def visit_Expr(self, node):
        if isinstance(node.value, ast.Call):
            self.add(node, "delstmt")
        self.generic_visit(node)

    def visit_AugAssign(self, node):
        self.add(node, "delstmt")
        self.generic_visit(node)

    def visit_If(self, node):
        if not node.orelse:
            self.add(node, "iftrue")
        self.generic_visit(node)

    def visit_Raise(self, node):
        return      # messages / error construction: leave alone


class Apply(ast.NodeTransformer):
    def __init__(self, site):
        self.kind, self.lineno, self.col, self.tname, _ = site
        self.done = False

    def hit(self, node):
        return (not self.done and type(node).__name__ == self.tname and getattr(node, "lineno", None) == self.lineno
                and getattr(node, "col_offset", None) == self.col)

    def generic_visit(self, node):
        if self.hit(node):
            self.done = True
            k = self.kind
            if k == "cmp":
                node.ops = [SWAP[type(node.ops[0])]()]
            elif k == "bool":
                node.op = ast.Or() if isinstance(node.op, ast.And) else ast.And()
            elif k == "not":
                return node.operand
            elif k == "const":
                node.value = not node.value
            elif k == "int":
                node.value = node.value + 1
            elif k == "delstmt":
                return ast.copy_location(ast.Pass(), node)
            elif k == "iftrue":
                node.test = ast.copy_location(ast.Constant(True), node.test)
            return node
        return super().generic_visit(node)


def gen(n, seed):
    rnd = random.Random(seed)
    os.makedirs(WORK, exist_ok=True)
    allsites = []
    for f, props in sorted(anchors().items()):
        path = f"/repo/{f}"
        if not os.path.exists(path):
            continue
        tree = ast.parse(open(path).read())
        s = Sites()
        s.visit(tree)
        for site in s.sites:
            allsites.append((f, site, props))
    rnd.shuffle(allsites)
    out = []
    for i, (f, site, props) in enumerate(allsites[:n]):
        tree = ast.parse(open(f"/repo/{f}").read())
        a = Apply(site)
        new = a.visit(tree)
        ast.fix_missing_locations(new)
        if not a.done:
            continue
        src = ast.unparse(new)
        mp = f"{WORK}/m{seed}_{i}.py"
        open(mp, "w").write(src + "\n")
        line = open(f"/repo/{f}").read().splitlines()[site[1] - 1].strip()
        out.append({"id": f"m{seed}_{i}", "file": f, "kind": site[0], "line": site[1], "func": site[4], "text": line, "props": props, "src": mp})
    json.dump(out, open(f"{WORK}/list_{seed}.json", "w"), indent=1)
    print(len(allsites), "sites;", len(out), "mutants written")


def load_all():
    out = []
    for f in sorted(os.listdir(WORK)):
        if f.startswith("list_"):
            out += json.load(open(f"{WORK}/{f}"))
    return out


def state():
    p = f"{WORK}/state.json"
    return json.load(open(p)) if os.path.exists(p) else {}


def save_state(st):
    json.dump(st, open(f"{WORK}/state.json", "w"), indent=1)


def mk_wt(name):
    wt = f"{WORK}/wt_{name}"
    if not os.path.exists(wt):
        subprocess.run(["git", "-C", "/repo", "worktree", "add", "--detach", wt, "HEAD", "-q"], check=True)
    return wt


def suite_one(args):
    m, slot = args
    wt = mk_wt(f"s{slot}")
    subprocess.run(["git", "-C", wt, "checkout", "-q", "--", "."])
    shutil.copy(m["src"], f"{wt}/{m['file']}")
    env = dict(os.environ, PYTHONPATH=f"{wt}/src:{wt}/tests/tests_helpers", PYTHONDONTWRITEBYTECODE="1")
    try:
        p = subprocess.run(["/venv/bin/python", "-m", "pytest", "-q", "-x", "-p", "no:cacheprovider", "--timeout=900"], cwd=wt, env=env,
                           capture_output=True, text=True, timeout=1200)
        tail = (p.stdout.strip().splitlines() or ["?"])[-1]
        ok = p.returncode == 0
    except subprocess.TimeoutExpired:
        tail, ok = "timeout", False
    subprocess.run(["git", "-C", wt, "checkout", "-q", "--", "."])
    return m["id"], ok, tail


def suite(par=8):
    st = state()
    todo = [m for m in load_all() if m["id"] not in st]
    import queue, threading
    q = queue.Queue()
    for m in todo:
        q.put(m)
    lock = threading.Lock()

    def worker(slot):
        while True:
            try:
                m = q.get_nowait()
            except queue.Empty:
                return
            mid, ok, tail = suite_one((m, slot))
            with lock:
                st[mid] = {"suite_pass": ok, "suite": tail}
                save_state(st)
                print(mid, "SURVIVES" if ok else "killed", m["file"].split("/")[-1], m["line"], m["kind"], tail[:60], flush=True)
    ts = [threading.Thread(target=worker, args=(i,)) for i in range(par)]
    [t.start() for t in ts]
    [t.join() for t in ts]


def check_one(m, slot, jobs):
    wt = mk_wt(f"c{slot}")
    subprocess.run(["git", "-C", wt, "checkout", "-q", "--", "."])
    shutil.copy(m["src"], f"{wt}/{m['file']}")
    res = {}
    for chk in sorted(m["props"], key=lambda c: COST.get(c, 999))[:int(os.environ.get("MUT_MAX", "4"))]:
        env = dict(os.environ, VERIF_REPO_SRC=f"{wt}/src", VERIF_BUILD_DIR=f"{WORK}/build_{slot}", VERIF_JOBS=str(jobs))
        p = subprocess.run([f"{ROOT}/check", chk, "--tier", "quick", "--no-evidence"], capture_output=True, text=True, env=env, cwd=ROOT)
        ref = sorted({l.split("obligation=")[1].split()[0] for l in p.stdout.splitlines() if l.startswith("REFUTED") and "obligation=" in l})[:6]
        res[chk] = {"exit": p.returncode, "refuted": ref}
        if p.returncode == 1:
            break
    shutil.rmtree(f"{WORK}/build_{slot}", ignore_errors=True)
    subprocess.run(["git", "-C", wt, "checkout", "-q", "--", "."])
    return res


def check(par=2, jobs=6):
    import queue, threading
    st = state()
    todo = [m for m in load_all() if st.get(m["id"], {}).get("suite_pass") and "checks" not in st[m["id"]]]
    q = queue.Queue()
    for m in todo:
        q.put(m)
    lock = threading.Lock()

    def worker(slot):
        while True:
            try:
                m = q.get_nowait()
            except queue.Empty:
                return
            res = check_one(m, slot, jobs)
            with lock:
                st[m["id"]]["checks"] = res
                save_state(st)
                caught = [c for c, r in res.items() if r["exit"] == 1]
                print(m["id"], "CAUGHT by " + ",".join(caught) if caught else "NOT CAUGHT", m["file"].split("/")[-1], m["line"], m["kind"], m["text"][:70], res, flush=True)
    ts = [threading.Thread(target=worker, args=(i,)) for i in range(par)]
    [t.start() for t in ts]
    [t.join() for t in ts]


def cleanup():
    for d in os.listdir(WORK):
        if d.startswith("wt_"):
            subprocess.run(["git", "-C", "/repo", "worktree", "remove", "--force", f"{WORK}/{d}"])
    subprocess.run(["git", "-C", "/repo", "worktree", "prune"])


def report():
    st = state()
    ms = load_all()
    rows = []
    for m in ms:
        s = st.get(m["id"])
        if not s:
            continue
        if not s["suite_pass"]:
            continue
        caught = [c for c, r in s.get("checks", {}).items() if r["exit"] == 1]
        rows.append((m, caught, s))
    killed = sum(1 for m in ms if m["id"] in st and not st[m["id"]]["suite_pass"])
    print(f"mutants={len([m for m in ms if m['id'] in st])} killed_by_suite={killed} survivors={len(rows)} caught={sum(1 for r in rows if r[1])}")
    for m, caught, s in rows:
        print(("CAUGHT " + ",".join(caught)) if caught else ("UNCAUGHT" if "checks" in s else "PENDING"), m["id"], m["file"], m["line"], m["kind"], m["func"], "|", m["text"][:90])


if __name__ == "__main__":
    cmd = sys.argv[1]
    if cmd == "gen":
        gen(int(sys.argv[2]), int(sys.argv[3]))
    elif cmd == "suite":
        suite(int(sys.argv[2]) if len(sys.argv) > 2 else 8)
    elif cmd == "check":
        check(int(sys.argv[2]) if len(sys.argv) > 2 else 2, int(sys.argv[3]) if len(sys.argv) > 3 else 6)
    elif cmd == "cleanup":
        cleanup()
    elif cmd == "report":
        report()
