#!/bin/bash
# usage: try_seed.sh <patch.diff> <check id> [more check ids]   -- applies the patch to /repo, runs the quick checks, reverts
PATCH=$(realpath "$1"); shift
cd /repo && git status --short | grep -q . && { echo "/repo not clean"; exit 9; }
git apply "$PATCH" || exit 8
trap 'git -C /repo checkout -- . ' EXIT
cd /verif
for c in "$@"; do
  ./check $c --tier ${TIER:-quick} --no-evidence ${ONLY:+--only $ONLY} > /tmp/try_$c.log 2>&1; rc=$?
  echo "check=$c exit=$rc $(grep -c '^VIOLATION' /tmp/try_$c.log) violations; $(grep '^SUMMARY' /tmp/try_$c.log | cut -c1-200)"
  grep '^REFUTED' /tmp/try_$c.log | head -3 | cut -c1-250
done
