"""keep_seed.py <Cxx> <k>: verify /tmp/seed/<Cxx>/patch<k>.diff in a scratch worktree and store it as /verif/seeded/<Cxx>-<k>/"""
import json, os, shutil, subprocess, sys
pid, k = sys.argv[1], sys.argv[2]
src = os.environ.get("SEED_DIR", "/tmp/seed") + f"/{pid}"
name = f"{pid}-{int(k) + int(os.environ.get('SEED_OFFSET', '0'))}"
patch = sys.argv[3] if len(sys.argv) > 3 else f"{src}/patch{k}.diff"
out = subprocess.run(["/verif/tools/verify_seed.sh", patch, f"{src}/demo{k}.py"], capture_output=True, text=True).stdout
print(out.strip().replace("\n", " | "))
ok = "demo_without_patch_exit=0" in out and "patch_applies=yes" in out and " passed" in out and "failed" not in out and "demo_with_patch_exit=0" not in out
if not ok:
    print("NOT KEPT"); sys.exit(1)
d = f"/verif/seeded/{name}"
os.makedirs(d, exist_ok=True)
shutil.copy(patch, f"{d}/patch.diff"); shutil.copy(f"{src}/demo{k}.py", f"{d}/demo.py")
notes = open(f"{src}/notes{k}.md").read() if os.path.exists(f"{src}/notes{k}.md") else ""
meta = {"property": pid, "origin": "independent sub-agent given only the property text and a scratch worktree",
        "what_it_needs_to_manifest_and_mechanism": notes,
        "verified": {"cmd": f"tools/verify_seed.sh seeded/{name}/patch.diff seeded/{name}/demo.py", "output": out.strip().splitlines()},
        "caught_by": None}
old = f"{d}/meta.json"
if os.path.exists(old):
    meta["caught_by"] = json.load(open(old)).get("caught_by")
json.dump(meta, open(old, "w"), indent=1)
print("kept", d)
