#!/bin/bash
# usage: verify_seed.sh <patch.diff> <demo.py>
# Confirms in a scratch worktree of /repo's HEAD: patch applies, full suite passes with it, demo fails with it and passes without it.
set -u
PATCH=$(realpath "$1"); DEMO=$(realpath "$2")
WT=$(mktemp -d /tmp/vseed.XXXXXX)
git -C /repo worktree add --detach "$WT" HEAD -q || exit 9
cleanup() { git -C /repo worktree remove --force "$WT" >/dev/null 2>&1; rm -rf "$WT"; }
trap cleanup EXIT
export PYTHONPATH="$WT/src:$WT/tests/tests_helpers" PYTHONDONTWRITEBYTECODE=1
cd "$WT"
/venv/bin/python "$DEMO" >/dev/null 2>&1; echo "demo_without_patch_exit=$?"
git apply "$PATCH" || { echo "patch_applies=no"; exit 8; }
echo "patch_applies=yes"
/venv/bin/python -m pytest -q -p no:cacheprovider -x --timeout=900 2>&1 | tail -1
/venv/bin/python "$DEMO" >/dev/null 2>&1; echo "demo_with_patch_exit=$?"
