"""Rewrites the status=fixed entries of known_findings.json from /repo's `fix:` commits (open entries are kept)."""
import json, subprocess
WHAT = {
 'int lax loader leaked': ("C04", "int lax loader: float('inf') -> OverflowError escaped (obligation l1_int_lax_sym, d=inf)"),
 'float loaders leaked': ("C04", "float strict and lax loaders: int 10**400 -> OverflowError escaped (l1_float_*_sel, tag=2 c0=7)"),
 'Fraction lax loader leaked': ("C04", "Fraction lax loader: float('inf') -> OverflowError escaped (l1_Fraction_lax_sel, tag=3 c0=5)"),
 'complex lax loader leaked': ("C04", "complex lax loader: int 10**400 -> OverflowError escaped (l1_complex_lax_sel, tag=2 c0=7)"),
 'leaked UnicodeEncodeError': ("C04", "bytes/bytearray base64 loader: non-ASCII str '\\x81' -> UnicodeEncodeError escaped (l1_bytes_*_sym)"),
 'timedelta loader leaked': ("C04", "timedelta loader: nan / inf / 10**400 seconds -> ValueError/OverflowError escaped (l1_timedelta_*_sel, tag=2 c0=7)"),
 'stray padding': ("C02", "bytes loader accepted '=' / '==' / 'QUJD=' (not base64 of any value) (l1_bytes_*_sym d='=')"),
 'mangled negative': ("C02", "timedelta loader: -2.25 s loaded as -1.25 s (floor-mod) and fractional microseconds truncated; also breaks the C01 round trip (l1_timedelta_*_sel, tag=3 c0=2; K-td kernel)"),
 'Mapping[K, V]': ("C02", "Mapping[K,V]/MutableMapping[K,V] loaded and dumped as bare dict: children not loaded, {'s': 0} accepted for Mapping[KStub, Stub] (l2_Mapping, l2_MutableMapping)"),
 'ExactOriginCombiner': ("C09", "ExactOriginCombiner._stop_combo kept a one-element combo: handler consulted twice, Chain applied twice (obligations step, whole, e2e facade: step(False, False, True, 3, True, 2))"),
 'merging literal unions': ("C15", "Union[Literal[0], Literal[False]] normalised to Literal[0] (obligations congruence lit0F, behav_lit0F, lit_full_pool)"),
 'equal to a builtin constant': ("C08", "get_literal_expr(Decimal(0)) == 'False', IntEnum member with value 1 -> 'True': absent field loaded as a look-alike (lit_atom s=19)"),
 'one-element tuple': ("C08", "get_literal_expr((1,)) == '(1)': absent field with default (1,) loaded as int 1 (default_* si=12, lit_container)"),
 'swapped stop and step': ("C08", "get_literal_expr(range(2, 1, 3)) rendered with stop and step swapped (lit_range kind=1 a=3 b=2 c=2)"),
 'is_singleton raised': ("C08", "is_singleton(bytearray(b'a')) / is_singleton({...}) raised TypeError: dumper creation with omit_default fails for unhashable literal defaults (singleton_atom s=18)"),
 'shared one cache entry': ("C11", "Literal[0,1] then Literal[False,True] on one retort: second loader is the first one (cached_call key by ==): strict load accepts 0, rejects True (hist_loader_litFT hi=0 d=0; literal_site_strict_*)"),
 'zero-valued member': ("C18", "flag_by_member_names: loader/dumper creation raised 'math domain error' for a flag with NONE = 0 (flag_creation: F3z)"),
 'unhashable list items': ("C18", "flag_by_member_names loader, allow_duplicates=False: ['A', ['A']] -> TypeError escaped instead of LoadError (flag_names_rej_* i0=8)"),
 'multi-bit members': ("C18", "flag_by_exact_value loader: load(11, Flag(LOW=3, MID=6, HIGH=12)) -> ValueError escaped (flag_exact_FMulti d=11)"),
 'integer-keyed mappings': ("C04", "list-layout model loader: {0: 1} -> bare KeyError (plain ExceptionGroup under ALL), {0: 1, 1: 2} accepted as a list even in strict mode (also C07) (C03 sweep / load_kinds_as_list* rk=2)"),
 'unexpected field-loader errors': ("C04", "model loader, DebugTrail.ALL: ValueError from a field loader wrapped into AggregateLoadError (a LoadError with a non-LoadError leaf) (model_fields_plain v2=-2)"),
 'ExcludedTypeLoadError stored': ("C05", "ExcludedTypeLoadError.input_value held the excluded type and excluded_type the datum: the offending value of a str/Mapping given to an iterable/tuple/list-layout loader was not reported (C05 model_kinds_as_list_forbid rk=3; l2 root errors)"),
 'by origin only': ("C14", "List[int] -> Optional[List[str]] accepted and passed as is (UnionSubcaseCoercerProvider compared origins only) (refusal_table; sound_List_int di=5)"),
 'Optional of its first member': ("C14", "Union[int, str, None] -> Optional[int] accepted: a str lands in an Optional[int] field (sound_U_int_str_none sel=2)"),
 'generic NamedTuple': ("C16", "class NT(NamedTuple, Generic[T]): NT[int] handled by the iterable provider: {'x': 1, 'y': [1]} rejected, [1, [2]] -> bare TypeError (case_NT_int)"),
 'name sanitizer kept': ("C19", "model named 'A\u00b2' / 'A\u2460' -> SyntaxError in the generated loader; 'A\u00aa' -> NameError in the generated converter (names_build; K-name/1 sanitizer_alphabet)"),
 'zero denominator': ("C04", "Fraction strict and lax loaders: '0/0' / '1/0' -> ZeroDivisionError escaped (E2 kernel kexc_fraction_*: datum '0/0')"),
 'leaked OSError': ("C04", "datetime_by_timestamp / date_by_timestamp: 1e18 -> OSError escaped (l1_datetime_ts_*_sel tag=3 c0=9)"),
 'beyond the regex engine': ("C04", "re.Pattern loader: 'a{4294967296}' -> OverflowError escaped (probe; same exception edge class as K-exc)"),
 'bare constructors': ("C04", "UUID / IPv4Address / IPv6Address / IPv4Network / IPv4Interface / Path loaders were the raw constructors: ValueError, AddressValueError, NetmaskValueError, TypeError, AttributeError escaped (l1_UUID_strict_sel tag=5 ...)"),
 'constructor-filled optional field': ("C08", "attrs model a, t=Factory(takes_self=True), z=7: load({'a': 1, 'z': 5}) -> M(a=1, t=5, z=7); with t present -> TypeError (takes_self_factory, all presence patterns)"),
 'Literal loader leaked TypeError': ("C04", "Literal with more than 4 cases (set branch): unhashable datum [0.0] -> TypeError escaped (literal_big_int kind=1)"),
 'shadowed an inner coercer': ("C19", "converter for A(inner: A') -> B(inner: B') where the inner classes are also named A and B: generated coerce_A_to_B shadowed the inner coercer -> AttributeError (names_same_name_nested)"),
 'leaked IndexError for an empty tuple': ("C04", "IPv4Network / IPv6Network / IPv4Interface / IPv6Interface loaders: () -> IndexError escaped (l1_IPv4Network_*_shapes tag=1 c0=1 kind=9)"),
 'trail that can not be rendered': ("C04", "debug_trail FIRST/ALL: load({10**5000: 'x'}, Dict[int, int]) -> ValueError (int -> str conversion limit) from render_trail_as_note masked the load error (huge_trail_key sel=2 v=0)"),
 'non-string extra keys with ExtraKwargs': ("C04", "name_mapping(extra_in=ExtraKwargs()): load({'a': 1, 5: 2}, M) -> TypeError 'keywords must be strings' escaped in every mode (nonstr_keys_kwargs k0=3 k1=0)"),
 'lax str loader leaked ValueError': ("C04", "lax str loader: 10**5000 -> ValueError (int -> str conversion limit), also via Union[int, str], Dict[str, int] keys, LiteralString (l1_str_lax_sel tag=2 c0=8 c1=1)"),
 'InvalidOperation for a signaling NaN': ("C04", "lax Literal loader: Decimal('sNaN') -> decimal.InvalidOperation from the membership test (numeric_tower ti=30 di=0 kind=0)"),
 'generic pydantic model with one type variable': ("C16", "class PM(BaseModel, Generic[T]): PM[int] / PM handled by the iterable provider (BaseModel defines __iter__): {'x': 1, 'y': [2]} rejected with ExcludedTypeLoadError, dump returns a tuple of pairs (case_PM_int, case_PMOpt_int, case_PM_bare)"),
 'prefixed with g_': ("C19", "two linked functions named foo and g_foo in one converter: UnboundLocalError at creation, or (other recipe order) both fields computed by the same function (names_build; names_generated_helpers gi=55)"),
 'pasted into the generated code as their repr': ("C19", "impl_converter stub with a defaulted extra parameter: the default's repr was written into the generated def line: Decimal('1.5') -> NameError, plain object -> SyntaxError, an object whose repr is code -> executed (names_build; names_param_defaults di=1..8)"),
 'bare abstract collections got no implicit': ("C15", "normalize_type(typing.Sequence) != normalize_type(typing.Sequence[Any]) (also Iterable, Collection, MutableSequence, AbstractSet, MutableSet, Mapping, MutableMapping): no implicit parameters, no loader for the bare hint (congruence seq_bare; builds)"),
 'IndexError / AttributeError instead of ProviderNotFoundError': ("C14", "get_converter for a field pair involving Tuple[()] -> IndexError, int | str opposite a model -> AttributeError, bare abstract collections -> IndexError, instead of ProviderNotFoundError (odd_hints s='pipe_int_str' d='G_int')"),
 'compared loaded members by equality': ("C02", "Literal[Level.HIGH, 1] (IntEnum): strict load(2) rejected (no enum member loadable next to a 0/1/bool case), lax load(1) -> Level.LOW which is not listed; Literal[SCol.A, 'b'] load('b') -> SCol.B; also breaks C01 and C07 (litenum_load_IntEnum_and_1 di=4, litenum_rt_IntEnum_and_1, litenum_pair_IntEnum_and_1)"),
 'set mixing Decimal and float nan': ("C08", "get_literal_expr({Decimal('1'), float('nan')}) raised decimal.InvalidOperation (sorting the set): loader creation fails for a model with such a default (lit_container kind=2 n=2 s0=12 s1=7; found first by a native fuzz of the renderer)"),
 'generic type aliases': ("C16", "type RevMap[K, V] = dict[V, K]: RevMap[int, str] loaded as dict[int, str] ({'a': 1} rejected, {1: 'a'} accepted) (alias_RevMap_int_str)"),
 'keywords or not in NFKC form': ("C19", "TypedDict key / pydantic field named 'class' or 'from': SyntaxError in the generated loader, dumper (data.class) and converter; keys differing only by NFKC form (U+FB01 vs 'fi') shared one generated variable: dump {'\ufb01': 1, 'fi': 2} -> {'fi': 1, '\ufb01': 1}, loader SyntaxError (kwids_build, kwids_case, kwids_pydantic; reported by a seed agent on the clean tree)"),
 'pasted into generated code unsanitised': ("C19", "get_converter(name='weird name' / 'class' / \"a'b\" / text with a newline) and impl_converter stubs so named: SyntaxError / IndentationError (the name reaches the def line raw); '_update_wrapper' as stub name -> TypeError; a linked function or destination class whose __name__ is a keyword or empty -> SyntaxError (kwids_build, conv_names)"),
 'members of equal sort keys': ("C15", "normalize_type(List[Union[list[Literal[1]], list[Literal['1']]]]) != normalize_type(list[Union[list[Literal['1']], list[Literal[1]]]]) (members with equal rendered sort keys kept input order; also Annotated[int, 1] / Annotated[int, '1'], classes / NewTypes of one name, Callable parameter lists spelled List[int] / list[int]); hashes differed too (congruence samekey_*; reported by a seed agent on the clean tree)"),
 'PEP 695 alias lost its arguments': ("C15", "type Box[T] = list[T]: normalize_type(Box[int]).source is bare Box (normalisation of the source not idempotent); load([1], Optional[Box[int]]) / load([[1]], list[Box[int]]) -> ProviderNotFoundError while Box[int] loads (congruence idem alias_box_int; builds opt_alias_box_int; reported by a seed agent on the clean tree)"),
 'bytes member next to a bool, 0 or 1 member': ("C02", "strict load('YWI=', Literal[b'ab', 1]) rejected although dump(b'ab') is 'YWI=' and the lax loader accepts it: the typed strict branch returned before the bytes wrapper; also breaks the C01 round trip (litenum_load_bytes_1 di=16, litenum_rt_bytes_1; reported by a seed agent on the clean tree)"),
 'only equal to a Literal case': ("C02", "dump(Decimal(200), Union[Literal[200, 300], Decimal]) -> Decimal('200') instead of '200' (membership by ==; also Fraction(1), an IntEnum member, 1.0); Decimal('sNaN') -> InvalidOperation (dump_union_literal_lit_dec di=5 / di=10; reported by a seed agent on the clean tree)"),
 'renamed members whose value equals a name key': ("C18", "enum_by_name(SE, map={'b': 'bee'}) with class SE(str, Enum): a = 'b'; b = 'c': both members dumped as 'bee', load(dump(SE.a)) is SE.b (member looked up in map by ==/hash) (enum_rt_ECross_name_map_cross mi=0; reported by a seed agent on the clean tree)"),
 "inherited __orig_bases__": ("C16", "class Mid(Root[int], Generic[T]): x: List[T]; class Child(Mid): pass -> load({'x': 1}, Child) accepted, {'x': ['a']} rejected (grandparent's binding replaced the overriding annotation); class Child(Root) with Root bare -> no loader (x stays ~T) (case_OBPlainChild, case_OBBareChild, case_OBBoundChild, creation; reported by a seed agent on the clean tree)"),
 'defaults that have no source form': ("C08", "model with a default 10**5000 (also [10**5000], (1, 10**5000)): loader creation raised ValueError (int -> str conversion limit) from get_literal_expr; self-referential / 3000-deep list default: RecursionError (lit_unrenderable i=0..7; reported by a seed agent on the clean tree)"),
}
WHAT.update(json.load(open('/verif/tools/fixed_extra.json')) if __import__('os').path.exists('/verif/tools/fixed_extra.json') else {})
log = subprocess.run(["git", "-C", "/repo", "log", "--format=%h %s"], capture_output=True, text=True).stdout.splitlines()
path = '/verif/known_findings.json'
d = json.load(open(path))
keep = [f for f in d["findings"] if f.get("status") != "fixed"]
fixed = []
for line in reversed(log):
    h, subj = line.split(' ', 1)
    if not subj.startswith('fix:'):
        continue
    hit = [v for k, v in WHAT.items() if k in subj]
    if not hit:
        print("UNMAPPED fix commit:", line)
        continue
    pid, w = hit[0]
    fixed.append({"status": "fixed", "property": pid, "commit": h, "what": w, "line": f"fixed: property={pid} {h} {w}"})
d["findings"] = fixed + keep
json.dump(d, open(path, 'w'), indent=1)
print(len(fixed), "fixed,", len(keep), "open")
