"""Worker for SMT-kernel (`smt_<name>`) and labelled native-enumeration (`nat_<name>`) obligations.
The harness module defines the function; it returns a record dict with at least `status`
(CONFIRMED | REFUTED | UNKNOWN) and, when refuted, `cex`/`cexs` for `chk_<name>(**cex)`.

usage: kworker.py <module_path> <json list of [fn_name, timeout]>
"""
import json
import os
import signal
import sys
import time
import traceback

from vf.replay import load_module

sys.setrecursionlimit(10000)


class _Timeout(Exception):
    pass


def _alarm(signum, frame):
    raise _Timeout()


def main():
    path = sys.argv[1]
    todo = json.loads(sys.argv[2])
    try:
        mod = load_module(path)
    except BaseException as e:
        from vf.replay import build_failure
        bf = build_failure(e) if isinstance(e, Exception) else None
        for fn_name, _ in todo:
            print("REC " + json.dumps({"fn": fn_name, "status": "BUILD_FAILED" if bf else "HARNESS_ERROR",
                                       "detail": bf or "import: " + "".join(traceback.format_exception_only(type(e), e)).strip()[-600:]}), flush=True)
        return
    signal.signal(signal.SIGALRM, _alarm)
    for fn_name, timeout in todo:
        t0 = time.time()
        rec = {"fn": fn_name}
        try:
            signal.alarm(int(timeout) + 5)
            r = getattr(mod, fn_name)()
            signal.alarm(0)
            rec.update(r)
        except _Timeout:
            rec.update(status="UNKNOWN", detail="kernel timeout")
        except BaseException as e:
            signal.alarm(0)
            rec.update(status="HARNESS_ERROR", detail="".join(traceback.format_exception_only(type(e), e)).strip()[-600:] + " | " + traceback.format_exc()[-600:])
        rec["wall_s"] = round(time.time() - t0, 3)
        print("REC " + json.dumps(rec, default=repr), flush=True)


if __name__ == "__main__":
    main()
