"""Verification framework for reagento/adaptix: solver-based checking of the real code."""
