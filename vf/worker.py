"""CrossHair worker: runs a batch of obligations (harness functions) of one harness
module symbolically and prints one JSON record per obligation.

Run with the overlay interpreter (/verif/.venv/bin/python).  The harness module is
imported natively first (retorts and closures are built from /repo's current tree
outside any tracing); only the calls of the closures are executed symbolically.

usage: worker.py <module_path> <json list of [fn_name, per_condition_timeout]>
"""
import importlib.util
import json
import os
import sys
import time
import traceback

sys.setrecursionlimit(10000)


def _load_module(path):
    name = "vfh_" + os.path.splitext(os.path.basename(path))[0]
    spec = importlib.util.spec_from_file_location(name, path)
    mod = importlib.util.module_from_spec(spec)
    sys.modules[name] = mod
    spec.loader.exec_module(mod)
    return mod


def emit(rec):
    sys.stdout.write("REC " + json.dumps(rec, default=repr) + "\n")
    sys.stdout.flush()


def main():
    path = sys.argv[1]
    todo = json.loads(sys.argv[2])
    sys.path.insert(0, os.path.dirname(os.path.dirname(os.path.abspath(__file__))))
    t0 = time.time()
    try:
        mod = _load_module(path)
    except BaseException as e:  # harness out of date / import failure: inconclusive -- unless the code under test failed to BUILD
        from vf.replay import build_failure
        bf = build_failure(e) if isinstance(e, Exception) else None
        for fn_name, _ in todo:
            if bf:
                emit({"fn": fn_name, "status": "BUILD_FAILED", "detail": bf})
            else:
                emit({"fn": fn_name, "status": "HARNESS_ERROR", "detail": "import: " + "".join(traceback.format_exception_only(type(e), e)).strip()[-600:]})
        return
    import_s = time.time() - t0

    import z3
    import crosshair.core as xcore
    from crosshair.core_and_libs import analyze_function
    from crosshair.options import AnalysisOptionSet, AnalysisKind
    from crosshair.statespace import StateSpace, MessageType
    from crosshair.condition_parser import Conditions

    stats = {"queries": 0, "solver_s": 0.0, "paths": 0, "exhausted": False, "cex": None, "confirmed_paths": 0}

    orig_check = z3.Solver.check

    def check(self, *a, **k):
        t = time.perf_counter()
        try:
            return orig_check(self, *a, **k)
        finally:
            stats["queries"] += 1
            stats["solver_s"] += time.perf_counter() - t

    z3.Solver.check = check

    orig_init = StateSpace.__init__

    def init(self, *a, **k):
        stats["paths"] += 1
        return orig_init(self, *a, **k)

    StateSpace.__init__ = init

    orig_bubble = StateSpace.bubble_status

    def bubble(self, analysis):
        r = orig_bubble(self, analysis)
        stats["exhausted"] = bool(r[1])
        return r

    StateSpace.bubble_status = bubble

    orig_fc = Conditions.format_counterexample

    def fc(self, args, return_val, reprs):
        try:
            stats["cex"] = {k: repr(v) for k, v in args.arguments.items()}
        except BaseException:
            stats["cex"] = None
        return orig_fc(self, args, return_val, reprs)

    Conditions.format_counterexample = fc

    orig_act = xcore.analyze_calltree

    def act(options, conditions):
        r = orig_act(options, conditions)
        stats["confirmed_paths"] = r.num_confirmed_paths
        stats["vstatus"] = r.verification_status.name
        return r

    xcore.analyze_calltree = act

    for fn_name, timeout in todo:
        for k in ("queries", "paths", "confirmed_paths"):
            stats[k] = 0
        stats["solver_s"] = 0.0
        stats["exhausted"] = False
        stats["cex"] = None
        stats["vstatus"] = None
        rec = {"fn": fn_name, "timeout": timeout, "import_s": round(import_s, 2)}
        t1 = time.time()
        try:
            fn = getattr(mod, fn_name)
            opts = AnalysisOptionSet(
                analysis_kind=[AnalysisKind.PEP316],
                per_condition_timeout=float(timeout),
                per_path_timeout=max(5.0, float(timeout) / 4),
                max_iterations=10 ** 9,
                max_uninteresting_iterations=10 ** 9,
                report_all=True,
            )
            checkables = analyze_function(fn, opts)
            if not checkables:
                rec.update(status="HARNESS_ERROR", detail="no conditions found")
                emit(rec)
                continue
            msgs = []
            for c in checkables:
                msgs.extend(c.analyze())
            kinds = [m.state.name for m in msgs]
            rec["messages"] = [{"state": m.state.name, "message": m.message[:2000]} for m in msgs]
            bad = [m for m in msgs if m.state in (MessageType.POST_FAIL, MessageType.EXEC_ERR, MessageType.POST_ERR, MessageType.PRE_INVALID if hasattr(MessageType, "PRE_INVALID") else MessageType.POST_ERR)]
            if any(m.state == MessageType.SYNTAX_ERR for m in msgs) or any(m.state.name == "IMPORT_ERR" for m in msgs):
                rec["status"] = "HARNESS_ERROR"
                rec["detail"] = "; ".join(m.message for m in msgs)[:600]
            elif any(m.state == MessageType.PRE_UNSAT for m in msgs):
                rec["status"] = "VACUOUS"
            elif bad:
                rec["status"] = "REFUTED"
                rec["cex"] = stats["cex"]
                rec["cex_message"] = bad[0].message[:2000]
            elif any(m.state == MessageType.CONFIRMED for m in msgs) and stats["exhausted"] and stats["confirmed_paths"] > 0:
                rec["status"] = "CONFIRMED"
            else:
                rec["status"] = "EXPLORED"
        except BaseException as e:
            rec["status"] = "HARNESS_ERROR"
            rec["detail"] = "".join(traceback.format_exception_only(type(e), e)).strip()[-600:]
        rec.update(
            paths=stats["paths"], confirmed_paths=stats["confirmed_paths"], exhausted=stats["exhausted"],
            solver_queries=stats["queries"], solver_s=round(stats["solver_s"], 3), wall_s=round(time.time() - t1, 3),
            vstatus=stats["vstatus"],
        )
        emit(rec)


if __name__ == "__main__":
    main()
