"""Regenerates /verif/MANIFEST.json from the table below (python -m vf.manifest_gen)."""
import json
import os

ROOT = os.path.dirname(os.path.dirname(os.path.abspath(__file__)))

BASELINE = ("cd /repo && env -u ADAPTIX_VERIF /venv/bin/python -m pytest -ra -q -p no:cacheprovider --timeout=900 "
            "--continue-on-collection-errors")

# property -> (technique, level text, level note, design ref)
CLAIMED = {}

NOT_APPLICABLE = {
    "C12": "Quantifier is thread schedules at statement granularity; CrossHair executes a single thread (thread-local tracer/state "
           "space, no scheduler model) and z3/cvc5 have no front end for Python threads; a hand-written interleaving model would be "
           "a model of the code, not the code. The sequential shadow (stale cache entries after failed/recursive requests) is "
           "covered under C11.",
}


def main():
    props = [json.loads(l) for l in open(os.path.join(ROOT, "properties.jsonl"))]
    checks = []
    for p in props:
        pid = p["id"]
        if pid not in CLAIMED:
            continue
        technique, text, note, ref = CLAIMED[pid]
        checks.append({
            "property_id": pid,
            "quick_cmd": f"./check {pid} --tier quick",
            "thorough_cmd": f"./check {pid} --tier thorough",
            "evidence_file": f"/verif/evidence/{pid}.json",
            "replay_cmd_template": f"./check {pid} --replay {{path}}",
            "engine": "xh-smt",
            "level_claimed": {"category": "model_checking", "text": text, "design_ref": ref},
            "level_note": note,
            "technique": technique,
        })
    na = [{"property_id": p["id"], "reason": NOT_APPLICABLE.get(p["id"], "check not built yet in this tree (see DESIGN.md section 5); not claimed until its obligations exist")}
          for p in props if p["id"] not in CLAIMED]
    man = {
        "version": 1,
        "setup_cmd": "/venv/bin/python -c \"import sys; sys.path.insert(0, '/verif'); from vf.run import ensure_overlay; ensure_overlay()\"",
        "hooks": {
            "guard": "ADAPTIX_VERIF",
            "enable": "no source hooks: checks import adaptix from /repo/src of the current working tree and observe public closures and the adaptix._internal entry points named in the property anchors; ADAPTIX_VERIF=1 is exported to workers but nothing in /repo reads it",
            "baseline_off_cmd": BASELINE,
            "source_commits": [],
            "add_only": True,
        },
        "engines": [{
            "name": "xh-smt",
            "path": "/verif/vf",
            "serves_properties": sorted(CLAIMED),
            "kind_free_text": "bounded symbolic execution of the real adaptix closures with CrossHair 0.0.110 (z3 decides every branch; per-obligation path-tree exhaustion = verdict), AST->SMT kernels (z3, cvc5 cross-check) for arithmetic/string kernels, native replay of every counterexample",
        }],
        "checks": checks,
        "not_applicable": na,
        "notes": "Exit 0 = no un-listed violation among everything explored (inconclusive obligations are printed as INCONCLUSIVE and counted in the evidence); exit 1 + VIOLATION line = natively replayed counterexample; exit 3 = machinery failure (nothing decided). See DESIGN.md.",
    }
    json.dump(man, open(os.path.join(ROOT, "MANIFEST.json"), "w"), indent=1)
    print("checks:", [c["property_id"] for c in checks], "n/a:", [n["property_id"] for n in na])


if __name__ == "__main__":
    main()
