"""Regenerates /verif/MANIFEST.json from the table below (python -m vf.manifest_gen)."""
import json
import os

ROOT = os.path.dirname(os.path.dirname(os.path.abspath(__file__)))

BASELINE = ("cd /repo && env -u ADAPTIX_VERIF /venv/bin/python -m pytest -ra -q -p no:cacheprovider --timeout=900 "
            "--continue-on-collection-errors")

# property -> (technique, level text, level note, design ref)
_LV = ("Bounded symbolic model checking of the real closures: every obligation is a harness over closures built from /repo's current "
       "tree; CrossHair executes them with the datum symbolic and z3 decides every branch; CONFIRMED means the path tree was exhausted "
       "inside the stated bounds, REFUTED means the solver's model replayed natively. Nothing is claimed outside the bounds; "
       "EXPLORED/ARTEFACT obligations are reported as inconclusive. ")
_NOTE = ("Trusted: CrossHair 0.0.110's models of builtins (known-unsound float<->int conversions are never relied on: E2 kernels own them), "
         "z3 5.1, CPython 3.12; the reference oracles in /verif/props (written from the docs); stub children stand for arbitrary "
         "contract-abiding child loaders (assume-guarantee, DESIGN.md 4.5). Values crossing C boundaries are realised (selector-enumerated).")
CLAIMED = {
    "C01": ("CrossHair symbolic execution of real dumper->loader pairs: leaf pairs, combinators with an inverse stub pair, generated model pairs per name_mapping recipe (z3 path exhaustion); C-level value pools by labelled enumeration",
            _LV + "C01: load(dump(x)) == x with identical types in all 6 modes, json leg where keys are strings.", _NOTE, "DESIGN.md 5/C01"),
    "C02": ("CrossHair symbolic execution of the real scalar/container/union loaders vs. a reference written from the docs; z3 path exhaustion",
            _LV + "C02: scalar loaders x symbolic atoms x root kinds; container/tuple/dict/union combinators with stub children vs. the documented rules.", _NOTE, "DESIGN.md 5/C02"),
    "C03": ("CrossHair symbolic execution of the generated model_loader_*/model_dumper_* functions per (model, name_mapping recipe) member against a reference loader/dumper over the layout stated by construction from the documented rules",
            _LV + "C03: every field from/to exactly its documented path; unknown keys ignored / rejected with exactly their set / delivered; omit_default; list gaps.", _NOTE, "DESIGN.md 5/C03"),
    "C04": ("CrossHair symbolic execution of the real loaders (outcome must be LoadError-only) + native replay; z3 path exhaustion",
            _LV + "C04: no non-LoadError outcome for any atom kind / wrong container / stub-child outcome in all 6 modes.", _NOTE, "DESIGN.md 5/C04"),
    "C05": ("CrossHair symbolic execution of real combinators with stub children carrying symbolic relative trails; exact trail/completeness post-conditions",
            _LV + "C05: ALL = every failing child exactly once at [position]++child trail; FIRST = exactly one; DISABLE = nothing added.", _NOTE, "DESIGN.md 5/C05"),
    "C06": ("three-way differential of independently built DISABLE/FIRST/ALL closures on the same symbolic input (CrossHair + z3)",
            _LV + "C06: same acceptance, equal results, corresponding errors across the three debug modes.", _NOTE, "DESIGN.md 5/C06"),
    "C07": ("pairwise differential strict vs lax closures on the same symbolic input (CrossHair + z3) + strict-origin table",
            _LV + "C07: strict ok => lax ok with same value; strict accepts only documented origins.", _NOTE, "DESIGN.md 5/C07"),
    "C08": ("CrossHair symbolic execution of the real get_literal_expr/is_singleton and of generated model loaders with an instrumented constructor; z3 path exhaustion over selector-built look-alike values and symbolic presence/field values",
            _LV + "C08: rendered literals evaluate to equal values of exactly the same type; absent fields hold the true default; the real constructor runs once.", _NOTE, "DESIGN.md 5/C08"),
    "C09": ("CrossHair symbolic execution of the real router/combiner/request bus with symbolic recipes (inductive step form) and of chained loaders on symbolic ints",
            _LV + "C09: first-match routing, no double consultation, Chain.FIRST/LAST composition, extend/replace/retort-in-recipe.", _NOTE, "DESIGN.md 5/C09"),
    "C10": ("CrossHair symbolic execution of the real LocStackEndChecker/combinators over stub checkers with symbolic truth tables and of string predicates on a symbolic field id; class-predicate matrix and identities by labelled native enumeration",
            _LV + "C10: chain semantics, pointwise combinators, string predicates (identifier vs regex), documented identities.", _NOTE, "DESIGN.md 5/C10"),
    "C11": ("differential warmed-retort vs fresh-retort closures on a symbolic datum (CrossHair + z3) + cache-key soundness of the real cached_call",
            _LV + "C11: histories over a pool of mutually confusable types are enumerated natively (stated as enumeration), the datum is symbolic.", _NOTE, "DESIGN.md 5/C11"),
    "C13": ("CrossHair symbolic execution of generated converter functions vs the field-wise construction written from the linking rules; source values symbolic; recipes and call histories enumerated natively",
            _LV + "C13: converters for rename/overlap/constant/function links, parameter kinds, skipped optionals, nested/Optional/iterable/dict coercion, from_param, shadowing, per-call recipe vs cache.", _NOTE, "DESIGN.md 5/C13"),
    "C14": ("CrossHair symbolic execution of every accepted field-type pair's converter on a symbolic conforming source value (semantic soundness); acceptance relation over the pool by labelled native enumeration",
            _LV + "C14: a conforming source value always yields a value conforming to the destination type; accepted pairs lie inside the documented relation; unlinked fields refused.", _NOTE, "DESIGN.md 5/C14"),
    "C15": ("differential loaders of equivalent spellings on a symbolic datum (CrossHair + z3); structural congruence by labelled native enumeration",
            _LV + "C15: equal/hash-equal/idempotent normal forms inside groups of equivalent hints, unequal across groups (enumeration, labelled), behavioural equivalence on symbolic data.", _NOTE, "DESIGN.md 5/C15"),
    "C16": ("CrossHair symbolic execution of loaders/dumpers of generated generic class hierarchies; per field a symbolic datum; expected substituted field types known by construction",
            _LV + "C16: acceptance iff every field datum conforms to the substituted type (strict), dump gives the data back; hierarchies and parametrisations enumerated natively.", _NOTE, "DESIGN.md 5/C16"),
    "C17": ("differential CrossHair symbolic execution of twin models of six kinds built from one logical spec (loaders, dumpers, converters) on the same input; pydantic/SQLAlchemy with realised pooled data",
            _LV + "C17: field-wise equal results, equal dumps, same error classes and trails, same response to name_mapping; converters copy every field.", _NOTE, "DESIGN.md 5/C17"),
    "C18": ("CrossHair symbolic execution of the real enum/flag loaders and dumpers: flag value and candidate representation symbolic, classes x providers x option cube enumerated natively",
            _LV + "C18: load(dump(m)) is m for every member/flag combination; loaders accept exactly the representations and reject the rest with LoadError; creation succeeds for every non-excluded class.", _NOTE, "DESIGN.md 5/C18"),
    "C19": ("hostile keys / field ids / model names enumerated as extra C03/C13 programs with symbolic data (CrossHair), canary for injected text, z3 kernels for the sanitizer alphabet and prefix collisions (reduced scope: the string quantifier cannot cross compile())",
            _LV + "C19 (reduced scope): generation succeeds and behaviour matches the C03 reference for every enumerated hostile key/id/name; nothing injected is evaluated.", _NOTE, "DESIGN.md 5/C19"),
    "C20": ("CrossHair symbolic execution of real combinators: deep snapshot of argument, two calls, identity-disjointness of built containers",
            _LV + "C20: argument untouched, repeatable, fresh containers.", _NOTE, "DESIGN.md 5/C20"),
}

EXTRA_NOTE = {
    "C01": "Symbolic: int/str/float/bool leaves, stub payloads, container lengths, model field values. Enumerated natively and labelled: pooled bytes/Decimal/Fraction/complex/timedelta/datetime/Pattern values (C code). K-td proves the timedelta pair for every microsecond count up to 2**51 (quick) / 0.99986 * 2**52 (thorough) under the standard rounding model. Known findings: timedelta of 2**33 s or more (float seconds), re.Pattern flags, extras mirrored into nested crowns.",
    "C02": "Symbolic: atoms, stub outcomes, root/inner node kinds. Reference oracles written from docs/loading-and-dumping/specific-types-behavior.rst.",
    "C03": "Programs (model x name_mapping recipe) are enumerated: 37 members, 26 in quick; per member the input is symbolic (presence bits, stub codes, unknown keys, wrong node kinds). The expected layout of each member is stated by construction. Known finding: omit_default with non-identity dumpers.",
    "C04": "Includes 15 K-exc kernels (exception edges over the loaders' ASTs, datum of every kind incl. all float bit patterns and unbounded ints), every builtin scalar / IP / path / IO type, enum and flag loaders, non-string keys against every extra policy. Labelled native enumerations (no symbolic dimension): stdlib numeric-tower pool x 53 types, unrenderable trail keys. Known findings: Set[Any] with unhashable elements; class objects with __class_getitem__ as model data.",
    "C05": "Trails are compared exactly (position ++ child trail) for every subset of failing children of <=3 siblings; nesting depth by induction over stub children.",
    "C06": "Known findings: tuple loader input_value copy and one-shot iterators (carved out as preconditions).",
    "C09": "Recipes are symbolic selector tuples (inductive step over the combiner state covers recipes of any length under the stated invariant); end-to-end recipes of length <=2 are enumerated natively, the datum is a symbolic int.",
    "C10": "Type-predicate matrix and the documented identities have no data dimension and are labelled native enumerations; the chain/combinator semantics use symbolic truth tables.",
    "C11": "Histories (<=2 calls over a 43-type pool) are enumerated natively; the datum is symbolic. Thread schedules are C12 (not applicable).",
    "C13": "Besides the hand-written programs, a generated family of 317 flat + 31 nested + 378 cross-kind converter programs (recipe tokens in every order, decoys, extra parameters, refused programs) is compared with a reference of the linking rules; programs are enumerated natively, values are symbolic.",
    "C14": "The acceptance relation over the 40-type pool is a labelled native enumeration; soundness of every accepted pair is decided on symbolic conforming values.",
    "C15": "Structural congruence (39 groups of spellings, 8-value literal pool) and predicate equivalence of spellings are labelled native enumerations: normalize_type cannot run under CrossHair (proxy intolerance); plus a seeded GENERATED family of random type terms in two random spellings each (1500 quick / 6000 thorough). Behavioural equivalence of loaders is symbolic.",
    "C16": "36 hierarchy cases (dataclass, attrs, NamedTuple, TypedDict, pydantic; PEP 604 unions) + 6 PEP 695 alias cases; pydantic cases take selector-built concrete payloads. Not claimed: a pydantic child re-using its parent's own TypeVar (documented pydantic limitation).",
    "C17": "pydantic / SQLAlchemy receive realised pooled data (compiled validators reject symbolic proxies); pure kinds are symbolic over the kind pattern.",
    "C19": "Reduced scope (DESIGN.md 5/C19): strings that end up in generated source cannot stay symbolic across compile(); hostile keys/ids/names are enumerated as programs, data is symbolic; two z3 kernels.",
    "C20": "Identity disjointness is checked on the real objects built under CrossHair and every refutation is replayed natively (identity exact). A violation hidden by CrossHair's lru_cache model is found by the native replay of the reachability witness.",
}

NOT_APPLICABLE = {
    "C12": "Quantifier is thread schedules at statement granularity; CrossHair executes a single thread (thread-local tracer/state "
           "space, no scheduler model) and z3/cvc5 have no front end for Python threads; a hand-written interleaving model would be "
           "a model of the code, not the code. The sequential shadow (stale cache entries after failed/recursive requests) is "
           "covered under C11.",
}


def main():
    props = [json.loads(l) for l in open(os.path.join(ROOT, "properties.jsonl"))]
    checks = []
    for p in props:
        pid = p["id"]
        if pid not in CLAIMED:
            continue
        technique, text, note, ref = CLAIMED[pid]
        note = note + " " + EXTRA_NOTE.get(pid, "")
        checks.append({
            "property_id": pid,
            "quick_cmd": f"./check {pid} --tier quick",
            "thorough_cmd": f"./check {pid} --tier thorough",
            "evidence_file": f"/verif/evidence/{pid}.json",
            "replay_cmd_template": f"./check {pid} --replay {{path}}",
            "engine": "xh-smt",
            "level_claimed": {"category": "model_checking", "text": text, "design_ref": ref},
            "level_note": note,
            "technique": technique,
        })
    na = [{"property_id": p["id"], "reason": NOT_APPLICABLE.get(p["id"], "check not built yet in this tree (see DESIGN.md section 5); not claimed until its obligations exist")}
          for p in props if p["id"] not in CLAIMED]
    man = {
        "version": 1,
        "setup_cmd": "/venv/bin/python -c \"import sys; sys.path.insert(0, '/verif'); from vf.run import ensure_overlay; ensure_overlay()\"",
        "hooks": {
            "guard": "ADAPTIX_VERIF",
            "enable": "no source hooks: checks import adaptix from /repo/src of the current working tree and observe public closures and the adaptix._internal entry points named in the property anchors; ADAPTIX_VERIF=1 is exported to workers but nothing in /repo reads it",
            "baseline_off_cmd": BASELINE,
            "source_commits": [],
            "add_only": True,
        },
        "engines": [{
            "name": "xh-smt",
            "path": "/verif/vf",
            "serves_properties": sorted(CLAIMED),
            "kind_free_text": "bounded symbolic execution of the real adaptix closures with CrossHair 0.0.110 (z3 decides every branch; per-obligation path-tree exhaustion = verdict), AST->SMT kernels (z3, cvc5 cross-check) for arithmetic/string kernels, native replay of every counterexample",
        }],
        "checks": checks,
        "not_applicable": na,
        "notes": "Exit 0 = no un-listed violation among everything explored (inconclusive obligations are printed as INCONCLUSIVE and counted in the evidence); exit 1 + VIOLATION line = natively replayed counterexample; exit 3 = machinery failure (nothing decided). See DESIGN.md.",
    }
    json.dump(man, open(os.path.join(ROOT, "MANIFEST.json"), "w"), indent=1)
    print("checks:", [c["property_id"] for c in checks], "n/a:", [n["property_id"] for n in na])


if __name__ == "__main__":
    main()
