"""Native replay (no CrossHair anywhere): import a harness module with the plain interpreter,
evaluate `fn(**cex)` and report whether the property body still fails.  With --trace the
functions of /repo/src (and of adaptix-generated code) that the call reaches are recorded:
that list is the "functions encoded" statement of the evidence.

usage: replay.py <module_path> <fn_name> <json {arg: repr}> [--trace]
prints one line: RPL {json}
"""
import importlib.util
import json
import os
import sys
import traceback

sys.setrecursionlimit(10000)
REPO_SRC = (os.environ.get("VERIF_REPO_SRC") or "/repo/src").rstrip("/") + "/"


def build_failure(e):
    """An exception raised while a harness module builds its retorts / loaders / converters at import time is a BUILD failure of the code under
    test when the traceback runs through /repo/src (or adaptix-generated code); otherwise it is a harness error.  Returns a description or None."""
    tb, frames = e.__traceback__, []
    while tb is not None:
        f = tb.tb_frame.f_code.co_filename
        if REPO_SRC in f:
            frames.append(f.split(REPO_SRC)[1] + ":" + str(tb.tb_lineno) + " " + tb.tb_frame.f_code.co_name)
        elif f.startswith("<adaptix"):
            frames.append(f + ":" + str(tb.tb_lineno))
        tb = tb.tb_next
    if isinstance(e, ImportError):
        return None              # a renamed / removed internal the harness imports: harness out of date
    if not frames:
        return None
    return "".join(traceback.format_exception_only(type(e), e)).strip()[-400:] + " | raised through " + " <- ".join(reversed(frames[-3:]))


def load_module(path):
    name = "vfh_" + os.path.splitext(os.path.basename(path))[0]
    spec = importlib.util.spec_from_file_location(name, path)
    mod = importlib.util.module_from_spec(spec)
    sys.modules[name] = mod
    spec.loader.exec_module(mod)
    return mod


def main():
    path, fn_name, cex = sys.argv[1], sys.argv[2], json.loads(sys.argv[3])
    trace = "--trace" in sys.argv[4:]
    out = {"fn": fn_name, "cex": cex}
    try:
        mod = load_module(path)
    except BaseException as e:
        bf = build_failure(e) if isinstance(e, Exception) else None
        if fn_name == "__build__" and bf:
            out.update(status="OK", reproduced=True, exc=bf, result=None)
        else:
            out.update(status="HARNESS_ERROR", detail="import: " + "".join(traceback.format_exception_only(type(e), e)).strip()[-500:])
        print("RPL " + json.dumps(out))
        return
    if fn_name == "__build__":
        out.update(status="OK", reproduced=False, result="module builds natively")
        print("RPL " + json.dumps(out))
        return
    try:
        kwargs = {k: eval(v, dict(mod.__dict__)) for k, v in cex.items()}
    except BaseException as e:
        out.update(status="HARNESS_ERROR", detail="cannot evaluate counterexample: " + repr(e)[:300])
        print("RPL " + json.dumps(out))
        return
    fn = getattr(mod, fn_name)
    seen = set()

    def tracer(frame, event, arg):
        if event == "call":
            co = frame.f_code
            f = co.co_filename
            if REPO_SRC in f:
                seen.add(f.split(REPO_SRC)[1] + ":" + co.co_qualname)
            elif f.startswith("<adaptix") or "adaptix" in f and f.startswith("<"):
                seen.add("<generated>:" + co.co_name)
        return None

    if trace:
        sys.settrace(tracer)
    try:
        r = fn(**kwargs)
        out["result"] = repr(r)[:500]
        out["reproduced"] = (r is False) or (r is None and False)
        out["status"] = "OK"
    except Exception as e:
        out["exc"] = "".join(traceback.format_exception_only(type(e), e)).strip()[-800:]
        out["tb"] = traceback.format_exc()[-1500:]
        out["reproduced"] = True
        out["status"] = "OK"
    finally:
        sys.settrace(None)
    if trace:
        out["functions"] = sorted(seen)
    print("RPL " + json.dumps(out))


if __name__ == "__main__":
    main()
