"""Runtime vocabulary shared by all generated harness modules (DESIGN.md section 4).

Nothing here imports CrossHair: the same module is used under symbolic execution
and for native replay.  Only `Exception` is ever caught (CrossHair steers paths
with BaseException subclasses).
"""
import copy
from collections import deque
from typing import Any

import os as _os
_DEBUG = bool(_os.environ.get("VF_DEBUG"))

from adaptix import DebugTrail, Retort, dumper, loader
from adaptix.load_error import LoadError, LoadExceptionGroup, TypeLoadError
from adaptix.struct_trail import ItemKey, Attr, append_trail, extend_trail, get_trail

DT_MODES = (DebugTrail.DISABLE, DebugTrail.FIRST, DebugTrail.ALL)


def dbg(msg):
    """returns False (a property violation) and, with VF_DEBUG set, says which clause failed"""
    if _DEBUG:
        import sys
        sys.stderr.write("VF_DEBUG violation clause: %s\n" % (msg,))
    return False


def realize(x):
    """Under CrossHair: force the solver to pick concrete values for x (used before C-level constructors whose
    CrossHair models are spurious: Decimal, complex, datetime parsing, str() of containers, re.compile).
    Each realised value is one path; the alternatives are explored on further paths.  Natively: identity."""
    import sys
    if "crosshair" not in sys.modules:
        return x
    from crosshair import deep_realize
    return deep_realize(x)


inf = float("inf")
nan = float("nan")

# ---------------------------------------------------------------- outcome abstraction (4.2)

def trail_of(e) -> tuple:
    return tuple(get_trail(e))


def leaves(e, prefix=()):
    """Flatten LoadExceptionGroups (and plain groups) into (absolute_trail, leaf) pairs."""
    here = tuple(prefix) + trail_of(e)
    if isinstance(e, BaseExceptionGroup):
        out = []
        for sub in e.exceptions:
            out.extend(leaves(sub, here))
        return out
    return [(here, e)]


def only_load_errors(e) -> bool:
    """C04: e is a LoadError and, if it is a group, every leaf is a LoadError."""
    if not isinstance(e, LoadError):
        return False
    if isinstance(e, BaseExceptionGroup):
        return all(only_load_errors(sub) for sub in e.exceptions)
    return True


def outcome(f, d):
    try:
        r = f(d)
    except LoadError as e:
        return ("load_error", type(e).__name__, e)
    except Exception as e:
        if _DEBUG:
            import sys, traceback
            sys.stderr.write("VF_DEBUG other_exc: %s.%s %r\n%s\n" % (type(e).__module__, type(e).__name__, e, "".join(traceback.format_tb(e.__traceback__)[-4:])))
        return ("other_exc", type(e).__name__, e)
    return ("ok", type(r).__name__, r)


def run(f, *a):
    """(True, result) or (False, exception)."""
    try:
        return True, f(*a)
    except Exception as e:
        return False, e


def same(a, b) -> bool:
    """== plus identical type, recursively through builtin containers."""
    if type(a) is not type(b):
        return False
    if isinstance(a, (list, tuple, deque)):
        return len(a) == len(b) and all(same(x, y) for x, y in zip(a, b))
    if isinstance(a, dict):
        if len(a) != len(b):
            return False
        for k in a:
            if k not in b:
                return False
            if not same(a[k], b[k]):
                return False
        return True
    if isinstance(a, (set, frozenset)):
        return a == b and sorted(map(repr, map(type, a))) == sorted(map(repr, map(type, b)))
    if isinstance(a, float):
        return a == b or (a != a and b != b)
    if type(a).__name__ == "Decimal":
        return a == b or (a.is_nan() and b.is_nan() and str(a) == str(b))
    if isinstance(a, complex):
        return same(a.real, b.real) and same(a.imag, b.imag)
    return a == b


FLOAT_POOL = (0.0, 1.5, -2.25, 1e300, float("nan"), float("inf"), float("-inf"), 3.0, 1e18, -1e18)


def pick(c, k: int) -> int:
    """Concrete value of a selector 0 <= c < k via an if-chain (one solver-decided branch per value; measured ~4x fewer
    paths than realising the int)."""
    for i in range(k - 1):
        if c == i:
            return i
    return k - 1


def sel_atom(tag: int, n: int, c0: int, c1: int, c2: int, alpha: str, c3: int = 0):
    """Selector-built concrete atom for C-boundary loaders:
    tag 0 None | 1 bool | 2 int in [-3, 3], +-10**400 and +-10**5000 | 3 float from FLOAT_POOL | 4 str over alpha, len n<=3 | 5 bytes len<=1.
    Callers constrain 0<=tag<=5, 0<=n<=3, 0<=ci<len(alpha) (alpha has at least 9 characters)."""
    tag = pick(tag, 6)
    if tag == 0:
        return None
    if tag == 1:
        return pick(c0, len(alpha)) % 2 == 1
    if tag == 2:
        c0 = pick(c0, len(alpha)) % 9
        if c0 == 7:
            return 10 ** 5000 if c1 == 1 else 10 ** 400         # 10**5000: also beyond the int -> str conversion limit
        if c0 == 8:
            return -(10 ** 5000) if c1 == 1 else -(10 ** 400)
        return c0 - 3
    if tag == 3:
        return FLOAT_POOL[pick(c0, len(alpha)) % len(FLOAT_POOL)]
    n = pick(n, 5)
    cs = [c0, c1, c2, c3][:(n if tag == 4 else min(n, 1))]
    text = "".join(alpha[pick(c, len(alpha))] for c in cs)
    if tag == 4:
        return text
    return text.encode("latin-1")


def leaf_sig(e):
    """Class and offending input of a leaf error."""
    return (type(e).__name__, getattr(e, "input_value", None))


# ---------------------------------------------------------------- stub children (4.5)

class Stub:
    """Opaque child type: its loader/dumper behaviour is a function of the datum."""
    __slots__ = ("n",)

    def __init__(self, n):
        self.n = n

    def __eq__(self, other):
        return type(other) is Stub and other.n == self.n

    def __hash__(self):
        return self.n * 31 + 17 if type(self.n) is int else 17        # (CrossHair's hash() of a tuple is a symbolic int: not allowed here)

    def __repr__(self):
        return f"Stub({self.n!r})"


class StubUserBug(ValueError):
    pass


def stub_loader(data):
    """n >= 0: accept, payload n.  -1: LoadError without trail.  -3: LoadError with one-element
    relative trail.  -4: LoadError with two-element relative trail.  -2: user bug (ValueError).
    Anything that is not an int: TypeLoadError."""
    if type(data) is not int:
        raise TypeLoadError(int, data)
    if data >= 0:
        return Stub(data)
    if data == -1:
        raise TypeLoadError(Stub, data)
    if data == -3:
        raise append_trail(TypeLoadError(Stub, data), "t")
    if data == -4:
        raise extend_trail(TypeLoadError(Stub, data), ["t", 7])
    if data == -2:
        raise StubUserBug("user bug")
    raise TypeLoadError(Stub, data)


def stub_rel_trail(code) -> tuple:
    if code == -3:
        return ("t",)
    if code == -4:
        return ("t", 7)
    return ()


def stub_dumper(obj):
    return obj.n


def inv_stub_loader(data):
    """inverse pair: dump x -> x.n + 1 ; load y -> Stub(y - 1)"""
    if type(data) is not int:
        raise TypeLoadError(int, data)
    return Stub(data - 1)


def inv_stub_dumper(obj):
    return obj.n + 1


STUB_RECIPE = [loader(Stub, stub_loader), dumper(Stub, stub_dumper)]
INV_STUB_RECIPE = [loader(Stub, inv_stub_loader), dumper(Stub, inv_stub_dumper)]


def retorts(recipe=(), strict=True, cls=Retort):
    """The three debug-trail variants of the same retort."""
    return tuple(cls(recipe=list(recipe), strict_coercion=strict, debug_trail=dt) for dt in DT_MODES)


def six_retorts(recipe=()):
    return {(strict, dt): Retort(recipe=list(recipe), strict_coercion=strict, debug_trail=dt)
            for strict in (True, False) for dt in DT_MODES}


def snapshot(x):
    return copy.deepcopy(x)


def mutable_ids(x, acc=None, depth=0):
    """ids of every mutable builtin container reachable from x (and of model instances)."""
    if acc is None:
        acc = set()
    if depth > 8:
        return acc
    if isinstance(x, (list, dict, set, deque, bytearray)):
        acc.add(id(x))
    if isinstance(x, dict):
        for k, v in x.items():
            mutable_ids(k, acc, depth + 1)
            mutable_ids(v, acc, depth + 1)
    elif isinstance(x, (list, tuple, set, frozenset, deque)):
        for v in x:
            mutable_ids(v, acc, depth + 1)
    elif hasattr(x, "__dict__") and not isinstance(x, type) and type(x).__module__ not in ("builtins", "decimal", "fractions", "datetime"):
        # (under CrossHair type() of a symbolic int is int although the proxy object has a __dict__)
        acc.add(id(x))
        for v in vars(x).values():
            mutable_ids(v, acc, depth + 1)
    return acc
