"""Orchestrator: ./check <id> [--tier quick|thorough] [--replay path] [--only substr] [--jobs N]

harness generation -> CrossHair / SMT workers (16 processes) -> native replay of every
counterexample -> known-findings protocol -> evidence file.  See DESIGN.md sections 3, 7, 9.
"""
import argparse
import concurrent.futures as cf
import hashlib
import importlib
import json
import os
import random
import shutil
import subprocess
import sys
import time

ROOT = os.path.dirname(os.path.dirname(os.path.abspath(__file__)))
VENV = os.path.join(ROOT, ".venv")
XPY = os.path.join(VENV, "bin", "python")       # overlay interpreter: /venv + crosshair + z3
NPY = "/venv/bin/python"                         # plain interpreter used for native replay
BUILD = os.environ.get("VERIF_BUILD_DIR") or os.path.join(ROOT, ".build")
REPO_SRC = os.environ.get("VERIF_REPO_SRC") or "/repo/src"      # dev aid: run the checks against a scratch worktree (seed matrix)
WHEELS = "/opt/veriftools/wheels"
OVERLAY_PKGS = ["crosshair-tool", "z3-solver", "typeshed-client", "typing-inspect", "importlib_metadata", "zipp"]

EXIT_OK, EXIT_VIOLATION, EXIT_BROKEN = 0, 1, 3


def ensure_overlay():
    """Overlay venv: venv of /venv's interpreter + .pth to /venv's site-packages + crosshair/z3 (--no-deps,
    so that /venv's attrs etc. are not shadowed)."""
    marker = os.path.join(VENV, ".ok")
    if os.path.exists(marker) and os.path.exists(XPY):
        return
    lock = os.path.join(ROOT, ".venv.lock")
    import fcntl
    with open(lock, "w") as lf:
        fcntl.flock(lf, fcntl.LOCK_EX)
        if os.path.exists(marker) and os.path.exists(XPY):
            return
        shutil.rmtree(VENV, ignore_errors=True)
        subprocess.run([NPY, "-m", "venv", VENV], check=True)
        sp = subprocess.run([XPY, "-c", "import sysconfig;print(sysconfig.get_paths()['purelib'])"],
                            check=True, capture_output=True, text=True).stdout.strip()
        with open(os.path.join(sp, "_overlay.pth"), "w") as f:
            f.write("import site; site.addsitedir('/venv/lib/python3.12/site-packages')\n")
        subprocess.run([XPY, "-m", "pip", "install", "-q", "--no-index", "--no-deps", "--find-links", WHEELS] + OVERLAY_PKGS,
                       check=True, env={**os.environ, "PIP_NO_INDEX": "1"})
        subprocess.run([XPY, "-c", "import crosshair, z3, adaptix"], check=True)
        open(marker, "w").write("ok\n")


def child_env(seed):
    env = dict(os.environ)
    env["PYTHONPATH"] = ROOT + os.pathsep + REPO_SRC
    env["VERIF_REPO_SRC"] = REPO_SRC
    env["PYTHONHASHSEED"] = str(seed % 4294967295)
    env["PYTHONDONTWRITEBYTECODE"] = "1"
    env["ADAPTIX_VERIF"] = "1"
    return env


def run_worker(kind, module_path, todo, seed, wall_limit):
    script = os.path.join(ROOT, "vf", "worker.py" if kind == "xh" else "kworker.py")
    t0 = time.time()
    try:
        p = subprocess.run([XPY, script, module_path, json.dumps(todo)], capture_output=True, text=True,
                           timeout=wall_limit, env=child_env(seed), cwd=ROOT)
        out, err, killed = p.stdout, p.stderr, False
    except subprocess.TimeoutExpired as e:
        out = e.stdout.decode() if isinstance(e.stdout, bytes) else (e.stdout or "")
        err = e.stderr.decode() if isinstance(e.stderr, bytes) else (e.stderr or "")
        killed = True
    recs = {}
    for line in out.splitlines():
        if line.startswith("REC "):
            try:
                r = json.loads(line[4:])
                recs[r["fn"]] = r
            except Exception:
                pass
    for fn, _ in todo:
        if fn not in recs:
            recs[fn] = {"fn": fn, "status": "KILLED" if killed else "HARNESS_ERROR",
                        "detail": ("hard wall-clock kill" if killed else "worker died: " + err[-400:]),
                        "wall_s": round(time.time() - t0, 2)}
    return recs


def native_replay(module_path, fn, cex, seed, trace=False, timeout=120):
    cmd = [NPY, os.path.join(ROOT, "vf", "replay.py"), module_path, fn, json.dumps(cex)]
    if trace:
        cmd.append("--trace")
    try:
        p = subprocess.run(cmd, capture_output=True, text=True, timeout=timeout, env=child_env(seed), cwd=ROOT)
    except subprocess.TimeoutExpired:
        return {"status": "HARNESS_ERROR", "detail": "replay timeout"}
    for line in p.stdout.splitlines():
        if line.startswith("RPL "):
            return json.loads(line[4:])
    return {"status": "HARNESS_ERROR", "detail": "replay died: " + p.stderr[-400:]}


def load_known(pid):
    path = os.path.join(ROOT, "known_findings.json")
    if not os.path.exists(path):
        return []
    data = json.load(open(path))
    return [f for f in data.get("findings", []) if f.get("property") == pid]


def write_replay_file(pid, ob, module_path, fn, cex, native, what):
    d = os.path.join(ROOT, "replays", pid)
    os.makedirs(d, exist_ok=True)
    h = hashlib.sha1((fn + json.dumps(cex, sort_keys=True)).encode()).hexdigest()[:10]
    path = os.path.join(d, f"{ob}-{h}.json")
    json.dump({
        "property": pid, "obligation": ob, "fn": fn, "cex": cex, "what": what,
        "native_outcome": {k: native.get(k) for k in ("result", "exc", "reproduced")},
        "module_name": os.path.basename(module_path),
        "module_source": open(module_path).read(),
        "rerun": f"./check {pid} --replay {path}",
    }, open(path, "w"), indent=1)
    return path


def do_replay(pid, path, seed):
    data = json.load(open(path))
    d = os.path.join(BUILD, pid, "replay")
    os.makedirs(d, exist_ok=True)
    mp = os.path.join(d, data["module_name"])
    open(mp, "w").write(data["module_source"])
    r = native_replay(mp, data["fn"], data["cex"], seed)
    print(json.dumps(r, indent=1))
    if r.get("reproduced"):
        print(f"VIOLATION property={pid} replay={path}")
        return EXIT_VIOLATION
    print("counterexample does not reproduce on the current tree")
    return EXIT_OK


def main(argv=None):
    ap = argparse.ArgumentParser()
    ap.add_argument("pid")
    ap.add_argument("--tier", default=os.environ.get("VERIF_TIER") or "quick")
    ap.add_argument("--replay")
    ap.add_argument("--only", default=None, help="dev: run only obligations whose name contains this")
    ap.add_argument("--jobs", type=int, default=int(os.environ.get("VERIF_JOBS", "16")))
    ap.add_argument("--no-evidence", action="store_true")
    a = ap.parse_args(argv)
    if os.environ.get("VERIF_TIER"):
        a.tier = os.environ["VERIF_TIER"]
    pid, tier = a.pid, a.tier
    seed = int(os.environ.get("VERIF_SEED", "0") or 0)
    t_start = time.time()
    try:
        ensure_overlay()
    except Exception as e:
        print(f"INCONCLUSIVE property={pid} overlay venv cannot be built: {e}")
        return EXIT_BROKEN
    if a.replay:
        return do_replay(pid, a.replay, seed)

    sys.path.insert(0, ROOT)
    plan = importlib.import_module(f"props.{pid}").build(tier, seed)
    known = load_known(pid)
    open_known = [k for k in known if k.get("status") == "open"]
    regions = {}
    whole = set()          # obligations that a known finding covers entirely (every input fails): not re-run, witness replayed
    for k in open_known:
        for obn in k.get("obligations", [k.get("obligation")]):
            if k.get("whole_obligation"):
                whole.add(obn)
            elif k.get("region"):
                regions.setdefault(obn, []).append(k["region"])

    bdir = os.path.join(BUILD, pid)
    shutil.rmtree(bdir, ignore_errors=True)
    os.makedirs(bdir, exist_ok=True)
    mpaths, obs = {}, []
    for m in plan.modules:
        mp = os.path.join(bdir, m.key + ".py")
        open(mp, "w").write(m.render(regions))
        mpaths[m.key] = mp
        for ob in m.obs:
            if a.only and a.only not in ob.name:
                continue
            obs.append(ob)
    all_obs = list(obs)
    obs = [o for o in obs if o.name not in whole]
    if not obs:
        print(f"INCONCLUSIVE property={pid} no obligations selected")
        return EXIT_BROKEN

    # ---- schedule: chunks of obligations of one module, one worker process per chunk
    budget = 90 if tier == "quick" else 900
    chunks = []
    by_mod = {}
    for ob in obs:
        by_mod.setdefault((ob.module, ob.kind), []).append(ob)
    for (mk, kind), lst in by_mod.items():
        cur, tot = [], 0.0
        for ob in lst:
            if cur and tot + ob.timeout > budget:
                chunks.append((mk, kind, cur))
                cur, tot = [], 0.0
            cur.append(ob)
            tot += ob.timeout
        if cur:
            chunks.append((mk, kind, cur))
    rnd = random.Random(seed)
    rnd.shuffle(chunks)
    chunks.sort(key=lambda c: -sum(o.timeout for o in c[2]))  # longest first (stable after the shuffle)

    results = {}

    def do_chunk(ch):
        mk, kind, lst = ch
        todo = []
        for ob in lst:
            if kind == "xh":
                todo.append([f"ob_{ob.name}", ob.timeout])
                todo.append([f"ob_{ob.name}__reach", min(20.0, ob.timeout)])
            else:
                todo.append([f"{kind}_{ob.name}", ob.timeout])
        wall = sum(t for _, t in todo) * 1.6 + 90
        return mk, kind, lst, run_worker(kind, mpaths[mk], todo, seed, wall)

    with cf.ThreadPoolExecutor(max_workers=a.jobs) as ex:
        for mk, kind, lst, recs in ex.map(do_chunk, chunks):
            for ob in lst:
                if kind == "xh":
                    results[ob.name] = (ob, recs[f"ob_{ob.name}"], recs[f"ob_{ob.name}__reach"])
                else:
                    results[ob.name] = (ob, recs[f"{kind}_{ob.name}"], None)

    # ---- classify, replay natively
    verdicts = {}
    violations, inconclusive_lines, samples = [], [], []
    functions_encoded = set()
    n_replays = 0
    tot_paths = tot_queries = 0
    tot_solver = 0.0

    def classify(item):
        ob, rec, reach = item
        v = {"obligation": ob.name, "family": ob.family, "kind": ob.kind, "bounds": ob.bounds,
             "paths": rec.get("paths", 0), "solver_queries": rec.get("solver_queries", 0),
             "solver_s": rec.get("solver_s", 0.0), "wall_s": rec.get("wall_s", 0.0), "replays": 0}
        if ob.kind != "xh":
            v["evaluations"] = rec.get("evaluations", 0)
            for k in ("functions_encoded", "backend", "note"):
                if k in rec:
                    v[k] = rec[k]
        st = rec.get("status")
        fn = f"ob_{ob.name}" if ob.kind == "xh" else f"chk_{ob.name}"
        body_fn = f"_b_{ob.name}" if ob.kind == "xh" else f"chk_{ob.name}"
        if st == "REFUTED":
            cexs = rec.get("cexs") or ([rec["cex"]] if rec.get("cex") is not None else [])
            if not cexs:
                v["verdict"] = "ARTEFACT"
                v["detail"] = "refuted without a usable counterexample: " + str(rec.get("cex_message"))[:300]
            else:
                v["verdict"] = "ARTEFACT"
                for cex in cexs[:5]:
                    nat = native_replay(mpaths[ob.module], body_fn, cex, seed)
                    v["replays"] += 1
                    if nat.get("status") == "OK" and nat.get("reproduced"):
                        v["verdict"] = "REFUTED"
                        v["cex"] = cex
                        v["native"] = {k: nat.get(k) for k in ("result", "exc")}
                        v["replay_path"] = write_replay_file(pid, ob.name, mpaths[ob.module], body_fn, cex, nat,
                                                             rec.get("cex_message", ""))
                        break
                    v["detail"] = "counterexample %r did not reproduce natively: %s" % (cex, nat.get("detail") or nat.get("result"))
        elif st == "BUILD_FAILED":
            # the harness module could not build its retorts / loaders / converters and the exception came out of the code under test:
            # confirmed by importing the module natively; reported once per module
            nat = native_replay(mpaths[ob.module], "__build__", {}, seed)
            v["replays"] += 1
            if nat.get("status") == "OK" and nat.get("reproduced"):
                v["verdict"] = "REFUTED"
                v["cex"] = {"__build__": ob.module}
                v["detail"] = "generation failed while the harness module was built: " + str(nat.get("exc"))[:600]
                v["native"] = {"result": None, "exc": nat.get("exc")}
                v["replay_path"] = write_replay_file(pid, ob.module + "__build", mpaths[ob.module], "__build__", {}, nat, v["detail"])
            else:
                v["verdict"] = "INCONCLUSIVE"
                v["detail"] = "build failure under the engine only: " + str(rec.get("detail"))[:400]
        elif st == "CONFIRMED":
            v["verdict"] = "CONFIRMED"
        elif st in ("EXPLORED", "UNKNOWN"):
            v["verdict"] = "EXPLORED"
            v["detail"] = rec.get("detail", "budget ended / solver unknown; not exhausted")
        elif st == "VACUOUS":
            v["verdict"] = "VACUOUS"
        else:
            v["verdict"] = "INCONCLUSIVE"
            v["detail"] = (rec.get("detail") or st or "")[:500]
        # reachability twin
        if reach is not None and v["verdict"] in ("CONFIRMED", "EXPLORED"):
            if reach.get("status") == "REFUTED" and reach.get("cex") is not None:
                nat = native_replay(mpaths[ob.module], body_fn, reach["cex"], seed, trace=True)
                v["replays"] += 1
                if nat.get("status") == "OK":
                    v["reach_witness"] = reach["cex"]
                    v["functions"] = nat.get("functions", [])
                    if nat.get("reproduced"):
                        # the body is False NATIVELY on the reachability witness although the engine did not refute the obligation: the
                        # engine's model hides it (e.g. CrossHair skips functools.lru_cache).  It reproduces on the real code, so it is
                        # reported; the solver verdict for this obligation is void.
                        v["verdict"] = "REFUTED"
                        v["detail"] = "found by the native replay of the reachability witness; the engine model does not show it"
                        v["cex"] = reach["cex"]
                        v["native"] = {k: nat.get(k) for k in ("result", "exc")}
                        v["replay_path"] = write_replay_file(pid, ob.name, mpaths[ob.module], body_fn, reach["cex"], nat, v["detail"])
                else:
                    v["detail"] = "reach replay: " + str(nat.get("detail"))
            elif v["verdict"] == "CONFIRMED":
                v["verdict"] = "VACUOUS"
                v["detail"] = "reachability twin not refuted: " + str(reach.get("status"))
        if ob.expect_refuted:
            # engine self-test: a canary that must be refuted
            if v["verdict"] == "REFUTED":
                v["verdict"] = "CONFIRMED"
                v["detail"] = "canary refuted as required: %r" % (v.get("cex"),)
                v.pop("replay_path", None)
            else:
                v["detail"] = "canary NOT refuted (%s): engine cannot see this region" % v["verdict"]
                v["verdict"] = "INCONCLUSIVE"
        return v

    with cf.ThreadPoolExecutor(max_workers=a.jobs) as ex:
        for v in ex.map(classify, list(results.values())):
            verdicts[v["obligation"]] = v

    for name in sorted(verdicts):
        v = verdicts[name]
        n_replays += v["replays"]
        tot_paths += v["paths"] + v.get("evaluations", 0)
        tot_queries += v["solver_queries"]
        tot_solver += v["solver_s"]
        functions_encoded.update(v.get("functions", []))
        functions_encoded.update(v.get("functions_encoded", []))
        if v["verdict"] == "REFUTED":
            violations.append(v)
        elif v["verdict"] != "CONFIRMED":
            inconclusive_lines.append(f"INCONCLUSIVE obligation={name} verdict={v['verdict']} {v.get('detail', '')[:300]}")

    # ---- known findings: replay each witness natively; print KNOWN-FINDING if it still fails
    kf_lines = []
    for k in open_known:
        obn = k.get("obligation") or k.get("obligations", [None])[0]
        ob = next((o for o in all_obs if o.name == obn), None)
        if ob is None:
            if a.only:
                continue
            inconclusive_lines.append(f"INCONCLUSIVE known-finding obligation {obn} no longer exists")
            continue
        body_fn = f"_b_{ob.name}" if ob.kind == "xh" else f"chk_{ob.name}"
        nat = native_replay(mpaths[ob.module], body_fn, k["witness"], seed)
        n_replays += 1
        if nat.get("status") == "OK" and nat.get("reproduced"):
            kf_lines.append(f"KNOWN-FINDING: property={pid} {k['what']} [obligation={obn} witness={k['witness']}]")
        else:
            inconclusive_lines.append(f"NOTE known finding no longer reproduces (obligation={obn}): {k['what'][:120]}")

    for line in kf_lines:
        print(line)
    for line in inconclusive_lines:
        print(line)
    printed = set()
    for v in violations:
        print(f"REFUTED obligation={v['obligation']} cex={v.get('cex')} native={v.get('native')}")
        if v["replay_path"] not in printed:           # a build failure is one violation for all obligations of the module
            printed.add(v["replay_path"])
            print(f"VIOLATION property={pid} replay={v['replay_path']}")

    n_obs = len(verdicts)
    n_conf = sum(1 for v in verdicts.values() if v["verdict"] == "CONFIRMED")
    counts = {}
    for v in verdicts.values():
        counts[v["verdict"]] = counts.get(v["verdict"], 0) + 1
    wall = time.time() - t_start
    print(f"SUMMARY property={pid} tier={tier} obligations={n_obs} " +
          " ".join(f"{k}={counts[k]}" for k in sorted(counts)) +
          f" paths={tot_paths} solver_queries={tot_queries} solver_s={tot_solver:.1f} replays={n_replays} wall_s={wall:.1f}")

    if not a.no_evidence:
        def brief(v):
            b = {k: v[k] for k in ("obligation", "family", "kind", "bounds", "verdict", "paths", "solver_queries", "solver_s", "wall_s") if k in v}
            for k in ("cex", "reach_witness", "detail", "evaluations", "backend"):
                if k in v:
                    b[k] = v[k] if not isinstance(v[k], str) else v[k][:300]
            return b
        ev = {
            "property_id": pid, "tier": tier, "seed": seed, "level": "model_checking",
            "coverage": {
                "states": max(1, tot_paths),
                "transitions": max(1, tot_queries),
                "traces_validated_against_impl": n_replays,
                "samples": [brief(verdicts[n]) for n in sorted(verdicts)],
                "obligations": n_obs, "discharged": n_conf,
                "explored_not_exhausted": counts.get("EXPLORED", 0),
                "artefacts": counts.get("ARTEFACT", 0), "vacuous": counts.get("VACUOUS", 0),
                "inconclusive_other": counts.get("INCONCLUSIVE", 0),
                "refuted": counts.get("REFUTED", 0),
                "known_findings_reproduced": len(kf_lines),
                "functions_encoded": sorted(functions_encoded),
                "bounds": plan.bounds, "outside_the_claim": plan.outside,
                "solver_queries": tot_queries, "solver_time_s": round(tot_solver, 2),
                "exhaustive": n_conf == n_obs,
                "explanation": "states = symbolic paths explored by CrossHair (one z3-decided path condition each) + SMT models/"
                               "native enumeration members examined; transitions = z3 check() calls; every REFUTED was replayed "
                               "natively before being reported; CONFIRMED = path tree exhausted / query unsat inside the stated bounds.",
                "checker_cmd": f"./check {pid} --tier {tier}",
            },
            "assumptions": plan.assumptions,
            "wall_s": round(wall, 2),
            "violations": len(violations),
        }
        os.makedirs(os.path.join(ROOT, "evidence"), exist_ok=True)
        json.dump(ev, open(os.path.join(ROOT, "evidence", f"{pid}.json"), "w"), indent=1, default=repr)

    if violations:
        return EXIT_VIOLATION
    if n_conf == 0:
        print(f"INCONCLUSIVE property={pid} nothing could be decided")
        return EXIT_BROKEN
    return EXIT_OK


if __name__ == "__main__":
    sys.exit(main())
