"""E2 / K-td: bit-precise round trip of the timedelta loader over integer microsecond counts (DESIGN.md 3.2).

dump side (CPython, not adaptix): timedelta.total_seconds() == n / 10**6 correctly rounded; for |n| < 2**53 this is
fp.div(RNE, to_fp_signed(n), 1e6).
load side: the body of the real `timedelta_loader` (source fetched with inspect.getsource on every run) is evaluated over
QF_FP/QF_BV terms by a small AST evaluator: int(x) -> fp.to_sbv RTZ, round(x) -> fp.to_sbv RNE (ties to even), float - int and
float * int with the int converted exactly, timedelta(seconds=a, microseconds=b) -> a * 10**6 + b.
Query:  lo <= n <= hi  and  load(dump(n)) != n   -- unsat = the round trip is exact for every count in the bound.
"""
import ast
import inspect
import textwrap
import time

import z3

FP = z3.Float64()
RNE, RTZ = z3.RNE(), z3.RTZ()
W = 64


class CannotEncode(Exception):
    pass


def to_fp(v):
    kind, t = v
    return t if kind == "fp" else z3.fpSignedToFP(RNE, t, FP)       # exact for |t| < 2**53 (asserted by the caller's bound)


class Eval:
    def __init__(self, fn):
        self.fn = fn
        src = textwrap.dedent(inspect.getsource(fn))
        self.tree = ast.parse(src).body[0]
        self.arg = self.tree.args.args[0].arg
        self.closure = dict(zip(fn.__code__.co_freevars, [c.cell_contents for c in (fn.__closure__ or ())]))

    def const(self, node):
        if isinstance(node, ast.Constant) and isinstance(node.value, int):
            return node.value
        if isinstance(node, ast.BinOp) and isinstance(node.op, ast.Pow):
            return self.const(node.left) ** self.const(node.right)
        raise CannotEncode("not an int constant: " + ast.unparse(node))

    def ev(self, node, env):
        if isinstance(node, ast.Name):
            if node.id in env: return env[node.id]
            raise CannotEncode("unbound name " + node.id)
        if isinstance(node, (ast.Constant,)) or (isinstance(node, ast.BinOp) and isinstance(node.op, ast.Pow)):
            return ("int", z3.BitVecVal(self.const(node), W))
        if isinstance(node, ast.BinOp):
            a, b = self.ev(node.left, env), self.ev(node.right, env)
            if a[0] == "int" and b[0] == "int":
                if isinstance(node.op, ast.Sub): return ("int", a[1] - b[1])
                if isinstance(node.op, ast.Add): return ("int", a[1] + b[1])
                if isinstance(node.op, ast.Mult): return ("int", a[1] * b[1])
                raise CannotEncode("int op " + type(node.op).__name__)
            fa, fb = to_fp(a), to_fp(b)
            if isinstance(node.op, ast.Sub): return ("fp", z3.fpSub(RNE, fa, fb))
            if isinstance(node.op, ast.Add): return ("fp", z3.fpAdd(RNE, fa, fb))
            if isinstance(node.op, ast.Mult): return ("fp", z3.fpMul(RNE, fa, fb))
            if isinstance(node.op, ast.Mod):
                raise CannotEncode("float % is not encoded (fp.rem has IEEE, not Python, semantics)")
            raise CannotEncode("float op " + type(node.op).__name__)
        if isinstance(node, ast.Call) and isinstance(node.func, ast.Name):
            f = node.func.id
            if f == "int" and len(node.args) == 1:
                v = self.ev(node.args[0], env)
                return v if v[0] == "int" else ("int", z3.fpToSBV(RTZ, v[1], z3.BitVecSort(W)))
            if f == "round" and len(node.args) == 1:
                v = self.ev(node.args[0], env)
                return v if v[0] == "int" else ("int", z3.fpToSBV(RNE, v[1], z3.BitVecSort(W)))
            if f == "timedelta":
                total = z3.BitVecVal(0, W)
                unit = {"seconds": 10 ** 6, "microseconds": 1, "milliseconds": 1000, "minutes": 60 * 10 ** 6}
                for kw in node.keywords:
                    if kw.arg not in unit: raise CannotEncode("timedelta keyword " + str(kw.arg))
                    v = self.ev(kw.value, env)
                    if v[0] != "int":
                        raise CannotEncode("timedelta with a float component is not encoded")
                    total = total + v[1] * z3.BitVecVal(unit[kw.arg], W)
                if node.args: raise CannotEncode("positional timedelta arguments")
                return ("td", total)
        raise CannotEncode("expression outside the grammar: " + ast.unparse(node)[:80])

    def run(self, x):
        """total microseconds (BV64) the loader returns for the float datum x (the type guard is taken as passed)"""
        env = {self.arg: ("fp", x)}

        def walk(stmts):
            for st in stmts:
                if isinstance(st, ast.If):
                    continue                       # type guard: data is a float here
                if isinstance(st, ast.Try):
                    r = walk(st.body)
                    if r is not None: return r
                elif isinstance(st, ast.Assign) and len(st.targets) == 1 and isinstance(st.targets[0], ast.Name):
                    env[st.targets[0].id] = self.ev(st.value, env)
                elif isinstance(st, ast.Return):
                    v = self.ev(st.value, env)
                    if v[0] != "td": raise CannotEncode("loader does not return a timedelta(...) expression")
                    return v[1]
                elif isinstance(st, (ast.Raise, ast.Pass, ast.Expr)):
                    continue
                else:
                    raise CannotEncode("statement outside the grammar: " + type(st).__name__)
            return None
        r = walk(self.tree.body)
        if r is None: raise CannotEncode("no return reached")
        return r


def check(fn, lo, hi, timeout_ms=120000):
    t0 = time.time()
    ev = Eval(fn)
    n = z3.BitVec("n", W)
    x = z3.fpDiv(RNE, z3.fpSignedToFP(RNE, n, FP), z3.FPVal(1000000.0, FP))
    out = ev.run(x)
    s = z3.SolverFor("QF_FPBV") if hasattr(z3, "SolverFor") else z3.Solver()
    s.set("timeout", timeout_ms)
    s.add(n >= z3.BitVecVal(lo, W), n <= z3.BitVecVal(hi, W))
    s.add(out != n)
    r = str(s.check())
    rec = {"result": r, "solver_s": time.time() - t0}
    if r == "sat":
        rec["n"] = s.model()[n].as_signed_long()
    return rec


# ---------------------------------------------------------------------------------------------------------------------------
# Relaxed backend: the same AST evaluation over linear real/integer arithmetic with the *standard model* of IEEE-754 rounding:
# every float operation returns the exact result plus an error e with |e| <= 2**-53 * |exact| (round-to-nearest, normal range).
# This over-approximates binary64, so `unsat` holds a fortiori for the real doubles; a `sat` model may be spurious and is
# replayed natively by the caller.  int(x) = truncation, round(x) = any nearest integer (ties both ways: over-approximation).
U = z3.Q(1, 2 ** 53)


class RelaxedEval(Eval):
    def __init__(self, fn):
        super().__init__(fn)
        self.side = []
        self.k = 0

    def fresh(self, sort="Real"):
        self.k += 1
        return z3.Real("r%d" % self.k) if sort == "Real" else z3.Int("i%d" % self.k)

    def fl(self, exact):
        """correctly rounded result of an exact real value"""
        e = self.fresh()
        a = z3.If(exact >= 0, exact, -exact)
        self.side += [e <= U * a, e >= -U * a]
        return exact + e

    def ev(self, node, env):
        if isinstance(node, ast.Name):
            if node.id in env: return env[node.id]
            raise CannotEncode("unbound name " + node.id)
        if isinstance(node, ast.Constant) or (isinstance(node, ast.BinOp) and isinstance(node.op, ast.Pow)):
            return ("int", z3.IntVal(self.const(node)))
        if isinstance(node, ast.BinOp):
            a, b = self.ev(node.left, env), self.ev(node.right, env)
            both_int = a[0] == "int" and b[0] == "int"
            ra = z3.ToReal(a[1]) if a[0] == "int" and not both_int else a[1]
            rb = z3.ToReal(b[1]) if b[0] == "int" and not both_int else b[1]
            if isinstance(node.op, ast.Sub): ex = ra - rb
            elif isinstance(node.op, ast.Add): ex = ra + rb
            elif isinstance(node.op, ast.Mult):
                if not (z3.is_int_value(a[1]) or z3.is_int_value(b[1]) or z3.is_rational_value(a[1]) or z3.is_rational_value(b[1])):
                    raise CannotEncode("symbolic * symbolic")
                ex = ra * rb
            else:
                raise CannotEncode("op " + type(node.op).__name__)
            return ("int", ex) if both_int else ("fp", self.fl(ex))
        if isinstance(node, ast.Call) and isinstance(node.func, ast.Name):
            f = node.func.id
            if f in ("int", "round") and len(node.args) == 1:
                v = self.ev(node.args[0], env)
                if v[0] == "int": return v
                r = self.fresh("Int")
                rr = z3.ToReal(r)
                if f == "int":
                    self.side.append(z3.If(v[1] >= 0, z3.And(rr <= v[1], v[1] < rr + 1), z3.And(rr - 1 < v[1], v[1] <= rr)))
                else:
                    self.side.append(z3.And(v[1] - rr <= z3.Q(1, 2), rr - v[1] <= z3.Q(1, 2)))
                return ("int", r)
            if f == "timedelta":
                total = z3.IntVal(0)
                unit = {"seconds": 10 ** 6, "microseconds": 1, "milliseconds": 1000, "minutes": 60 * 10 ** 6}
                for kw in node.keywords:
                    if kw.arg not in unit: raise CannotEncode("timedelta keyword " + str(kw.arg))
                    v = self.ev(kw.value, env)
                    if v[0] != "int": raise CannotEncode("timedelta with a float component is not encoded")
                    total = total + v[1] * unit[kw.arg]
                return ("td", total)
        raise CannotEncode("expression outside the grammar: " + ast.unparse(node)[:80])


def check_relaxed(fn, lo, hi, timeout_ms=120000):
    t0 = time.time()
    ev = RelaxedEval(fn)
    n = z3.Int("n")
    x = ev.fl(z3.ToReal(n) / 1000000)               # total_seconds(): correctly rounded n / 10**6
    out = ev.run(x)
    s = z3.Solver()
    s.set("timeout", timeout_ms)
    s.add(n >= lo, n <= hi, *ev.side)
    s.add(out != n)
    r = str(s.check())
    rec = {"result": r, "solver_s": time.time() - t0}
    if r == "sat":
        rec["n"] = s.model()[n].as_long()
    return rec
