"""E2 / K-exc: exception-edge reachability over the real source of the scalar loaders (DESIGN.md 3.2).

The function's source is fetched with inspect.getsource from the live object on every run and walked as an AST.  The datum is a
z3 datatype; builtins are contract stubs: a result plus *exception edges* with their conditions.  For every call site the query

        path condition  AND  edge condition  AND  exception class not caught by an enclosing `except` that raises a LoadError

is given to z3: `sat` yields a concrete datum (replayed natively by the caller), all `unsat` means no stub edge escapes.
A construct outside the grammar raises CannotEncode -> the obligation is INCONCLUSIVE, never a violation.
"""
import ast
import inspect
import textwrap
import time
from decimal import Decimal, InvalidOperation
from fractions import Fraction

import z3


class CannotEncode(Exception):
    pass


FP = z3.Float64()
RNE = z3.RNE()
TAGS = ["int", "bool", "float", "str", "none", "decimal", "fraction", "complex", "bytes", "list"]
TAG_TYPES = {"int": int, "bool": bool, "float": float, "str": str, "none": type(None), "decimal": Decimal, "fraction": Fraction,
             "complex": complex, "bytes": bytes, "list": list}

# exception hierarchy used by `except` matching
EXC_PARENTS = {"OverflowError": "ArithmeticError", "ZeroDivisionError": "ArithmeticError", "InvalidOperation": "ArithmeticError",
               "FloatingPointError": "ArithmeticError", "ArithmeticError": "Exception", "ValueError": "Exception", "TypeError": "Exception",
               "UnicodeEncodeError": "UnicodeError", "UnicodeError": "ValueError", "AttributeError": "Exception", "KeyError": "LookupError",
               "LookupError": "Exception", "Error": "ValueError",       # binascii.Error
               "error": "Exception"}                                      # re.error


def is_sub(exc, handler):
    while exc is not None:
        if exc == handler:
            return True
        exc = EXC_PARENTS.get(exc)
    return False


class Datum:
    """symbolic datum: a tag plus one payload per representable kind"""
    def __init__(self, prefix="d"):
        self.tag = z3.Int(prefix + "_tag")
        self.i = z3.Int(prefix + "_int")               # int payload (also bool as 0/1)
        self.f = z3.FP(prefix + "_float", FP)          # float payload
        self.s = z3.String(prefix + "_str")            # str payload
        self.dkind = z3.Int(prefix + "_deckind")       # decimal: 0 finite, 1 +-inf, 2 nan, 3 snan
        self.constraints = [self.tag >= 0, self.tag < len(TAGS), z3.Length(self.s) <= 6, self.dkind >= 0, self.dkind <= 3,
                            z3.Implies(self.tag == TAGS.index("bool"), z3.And(self.i >= 0, self.i <= 1))]

    def is_tag(self, *names):
        return z3.Or([self.tag == TAGS.index(n) for n in names])


FLOAT_MAX_INT = 2 ** 1024 - 2 ** 970          # the smallest int that float() refuses
INT_LITERAL = z3.Concat(z3.Star(z3.Re(" ")), z3.Option(z3.Union(z3.Re("+"), z3.Re("-"))), z3.Plus(z3.Range("0", "9")), z3.Star(z3.Re(" ")))
ASCII = z3.Star(z3.Range(chr(0), chr(127)))
FRACTION_ZERO_DEN = z3.Concat(z3.Star(z3.Re(" ")), z3.Option(z3.Union(z3.Re("+"), z3.Re("-"))), z3.Plus(z3.Range("0", "9")), z3.Re("/"),
                              z3.Plus(z3.Re("0")), z3.Star(z3.Re(" ")))


def stub_edges(fn_name, d: Datum):
    """exception edges of a builtin applied to the datum: [(exception class name, condition)] (documented CPython behaviour;
    every edge is self-tested against the running interpreter by `selftest`)"""
    T = d.is_tag
    finite_dec = d.dkind == 0
    if fn_name == "int":
        return [("OverflowError", z3.Or(z3.And(T("float"), z3.fpIsInf(d.f)), z3.And(T("decimal"), d.dkind == 1))),
                ("ValueError", z3.Or(z3.And(T("float"), z3.fpIsNaN(d.f)), z3.And(T("decimal"), d.dkind >= 2),
                                     z3.And(T("str"), z3.Not(z3.InRe(d.s, INT_LITERAL))), T("bytes"))),
                ("TypeError", T("none", "complex", "list"))]
    if fn_name == "float":
        return [("OverflowError", z3.And(T("int"), z3.Or(d.i >= FLOAT_MAX_INT, d.i <= -FLOAT_MAX_INT))),
                ("ValueError", z3.Or(T("str"), T("bytes"), z3.And(T("decimal"), d.dkind == 3))),   # some strings (over-approximated: any str may fail)
                ("TypeError", T("none", "complex", "list"))]
    if fn_name == "Decimal":
        return [("InvalidOperation", T("str")), ("TypeError", T("none", "complex", "bytes", "fraction")), ("ValueError", T("list"))]
    if fn_name == "Fraction":
        return [("ZeroDivisionError", z3.And(T("str"), z3.InRe(d.s, FRACTION_ZERO_DEN))),
                ("ValueError", z3.Or(T("str"), z3.And(T("float"), z3.fpIsNaN(d.f)), z3.And(T("decimal"), d.dkind >= 2))),
                ("OverflowError", z3.Or(z3.And(T("float"), z3.fpIsInf(d.f)), z3.And(T("decimal"), d.dkind == 1))),
                ("TypeError", T("none", "complex", "bytes", "list"))]
    if fn_name == "complex":
        return [("OverflowError", z3.And(T("int"), z3.Or(d.i >= FLOAT_MAX_INT, d.i <= -FLOAT_MAX_INT))),
                ("ValueError", T("str")), ("TypeError", T("none", "bytes", "list", "decimal") if False else T("none", "bytes", "list"))]
    if fn_name == "encode_ascii":
        return [("UnicodeEncodeError", z3.And(T("str"), z3.Not(z3.InRe(d.s, ASCII)))), ("AttributeError", z3.Not(T("str")))]
    if fn_name == "str" or fn_name == "bool":
        return []
    raise CannotEncode("no contract stub for " + fn_name)


def selftest():
    """each stub edge against the running interpreter: one input inside the condition raises exactly that class"""
    import math
    cases = [(int, float("inf"), OverflowError), (int, float("nan"), ValueError), (int, Decimal("Infinity"), OverflowError), (int, Decimal("NaN"), ValueError),
             (int, "x", ValueError), (int, None, TypeError), (int, 1j, TypeError), (int, [], TypeError), (int, b"x", ValueError),
             (float, FLOAT_MAX_INT, OverflowError), (float, -FLOAT_MAX_INT, OverflowError), (float, "x", ValueError), (float, None, TypeError),
             (float, Decimal("sNaN"), ValueError), (Decimal, "x", InvalidOperation), (Decimal, None, TypeError), (Decimal, [], ValueError) if False else (Decimal, None, TypeError),
             (Fraction, "1/0", ZeroDivisionError), (Fraction, "x", ValueError), (Fraction, float("inf"), OverflowError), (Fraction, float("nan"), ValueError),
             (Fraction, None, TypeError), (complex, FLOAT_MAX_INT, OverflowError), (complex, "x", ValueError), (complex, None, TypeError),
             (lambda s: s.encode("ascii"), "\x80", UnicodeEncodeError), (lambda s: s.encode("ascii"), 5, AttributeError)]
    ok_cases = [(float, FLOAT_MAX_INT - 1), (int, "12"), (int, " -3 "), (Fraction, "1/2"), (lambda s: s.encode("ascii"), "abc"), (int, 1.5), (int, Decimal(2))]
    bad = []
    for fn, arg, exc in cases:
        try:
            fn(arg)
            bad.append((getattr(fn, "__name__", "encode"), repr(arg)[:30], "no exception"))
        except exc:
            pass
        except Exception as e:
            bad.append((getattr(fn, "__name__", "encode"), repr(arg)[:30], type(e).__name__))
    for fn, arg in ok_cases:
        try:
            fn(arg)
        except Exception as e:
            bad.append((getattr(fn, "__name__", "encode"), repr(arg)[:30], "unexpected " + type(e).__name__))
    return bad


class Walker:
    """symbolic walk of one loader function; collects (path condition, exception class, lineno) for every escaping stub edge"""

    def __init__(self, fn, load_error_names):
        self.fn = fn
        src = textwrap.dedent(inspect.getsource(fn))
        self.tree = ast.parse(src).body[0]
        self.arg = self.tree.args.args[0].arg
        self.d = Datum()
        self.escapes = []          # (condition, exc name, lineno)
        self.load_error_names = set(load_error_names)
        self.closure = {}
        if fn.__closure__:
            self.closure = dict(zip(fn.__code__.co_freevars, [c.cell_contents for c in fn.__closure__]))
        self.globals = fn.__globals__
        self.queries = 0
        self.opaque_tests = []

    # ---- helpers
    def resolve(self, node):
        """python object denoted by a Name / Attribute / Tuple of such (types, exception classes)"""
        if isinstance(node, ast.Name):
            if node.id in self.closure: return self.closure[node.id]
            if node.id in self.globals: return self.globals[node.id]
            import builtins
            if hasattr(builtins, node.id): return getattr(builtins, node.id)
            raise CannotEncode("unresolved name " + node.id)
        if isinstance(node, ast.Attribute):
            return getattr(self.resolve(node.value), node.attr)
        if isinstance(node, ast.Tuple):
            return tuple(self.resolve(e) for e in node.elts)
        if isinstance(node, ast.Constant):
            return node.value
        raise CannotEncode("cannot resolve " + ast.dump(node)[:60])

    def tags_of_types(self, types):
        names = []
        for t in types if isinstance(types, tuple) else (types,):
            hit = [n for n, tt in TAG_TYPES.items() if tt is t]
            if not hit: raise CannotEncode("type outside the datum domain: %r" % (t,))
            names.append(hit[0])
        return names

    def is_data(self, node):
        return isinstance(node, ast.Name) and node.id == self.arg

    def cond(self, node):
        """z3 condition of a test over the datum's type"""
        if isinstance(node, ast.UnaryOp) and isinstance(node.op, ast.Not):
            return z3.Not(self.cond(node.operand))
        if isinstance(node, ast.BoolOp):
            parts = [self.cond(v) for v in node.values]
            return z3.And(parts) if isinstance(node.op, ast.And) else z3.Or(parts)
        if isinstance(node, ast.Compare) and len(node.ops) == 1:
            left, op, right = node.left, node.ops[0], node.comparators[0]
            if isinstance(left, ast.Call) and isinstance(left.func, ast.Name) and left.func.id == "type" and self.is_data(left.args[0]):
                tags = self.tags_of_types(self.resolve(right))
                c = self.d.is_tag(*tags)
                if isinstance(op, (ast.Is, ast.In, ast.Eq)): return c
                if isinstance(op, (ast.IsNot, ast.NotIn, ast.NotEq)): return z3.Not(c)
            if self.is_data(left) and isinstance(right, ast.Constant) and right.value is None:
                c = self.d.is_tag("none")
                return c if isinstance(op, ast.Is) else z3.Not(c)
        if isinstance(node, ast.Call) and isinstance(node.func, ast.Name) and node.func.id == "isinstance" and self.is_data(node.args[0]):
            tags = self.tags_of_types(self.resolve(node.args[1]))
            if "int" in tags and "bool" not in tags: tags.append("bool")           # bool is a subclass of int
            return self.d.is_tag(*tags)
        # a test that does not speak about the datum's type (regex match on a derived value, ...): nondeterministic stub,
        # both outcomes are explored (sound over-approximation for "no edge escapes")
        self.opaque_tests.append(ast.unparse(node)[:80])
        return z3.Bool("opaque_%d" % len(self.opaque_tests))

    def calls_on_data(self, node):
        """builtin calls applied (directly) to the datum inside an expression, as stub names"""
        out = []
        for sub in ast.walk(node):
            if isinstance(sub, ast.Call):
                f = sub.func
                if isinstance(f, ast.Attribute) and self.is_data(f.value) and f.attr == "encode":
                    out.append(("encode_ascii", sub.lineno))
                elif sub.args and self.is_data(sub.args[0]) and not sub.keywords:
                    try:
                        obj = self.resolve(f)
                    except CannotEncode:
                        continue
                    name = getattr(obj, "__name__", None)
                    if obj in (int, float, Decimal, Fraction, complex, str, bool):
                        out.append((name, sub.lineno))
                    elif name in ("type", "isinstance", "len", "repr"):
                        pass
                    elif isinstance(obj, type) and issubclass(obj, Exception):
                        pass                               # constructing an error object with the datum
                    else:
                        raise CannotEncode("call outside the stub table: " + ast.unparse(sub)[:60])
        return out

    def handler_outcome(self, handler):
        """'load_error' if the handler body (on every path) raises a LoadError subclass; 'swallow' if it raises nothing;
        'other' if it re-raises or raises something else"""
        if not any(isinstance(n, ast.Raise) for st in handler.body for n in ast.walk(st)):
            return "swallow"
        for st in handler.body:
            if isinstance(st, ast.Raise) and st.exc is not None:
                exc = st.exc.func if isinstance(st.exc, ast.Call) else st.exc
                try:
                    cls = self.resolve(exc)
                except CannotEncode:
                    return "other"
                if isinstance(cls, type) and cls.__name__ in self.load_error_names:
                    return "load_error"
            if isinstance(st, ast.If):
                # every branch must end in a LoadError raise
                branches = [st.body, st.orelse or []]
                def ends_le(body):
                    fake = ast.ExceptHandler(type=None, name=None, body=body)
                    return self.handler_outcome(fake) == "load_error"
                if ends_le(st.body) and (not st.orelse or ends_le(st.orelse)):
                    if st.orelse: return "load_error"
                    continue
        return "other"

    # ---- statement walk: returns the condition under which control continues after the statements
    def walk(self, stmts, pc, handlers):
        for st in stmts:
            if isinstance(st, (ast.Return, ast.Expr, ast.Assign)):
                value = st.value
                if value is not None:
                    self.emit_calls(value, pc, handlers)
                if isinstance(st, ast.Return):
                    return z3.BoolVal(False)
            elif isinstance(st, ast.Raise):
                return z3.BoolVal(False)               # raising a LoadError (or re-raising) explicitly: handled by handler_outcome at the try level
            elif isinstance(st, ast.If):
                c = self.cond(st.test)
                after_t = self.walk(st.body, z3.And(pc, c), handlers)
                after_f = self.walk(st.orelse, z3.And(pc, z3.Not(c)), handlers) if st.orelse else z3.And(pc, z3.Not(c))
                pc = z3.Or(after_t, after_f)
            elif isinstance(st, ast.Try):
                hs = []
                for h in st.handlers:
                    names = self.resolve(h.type) if h.type is not None else Exception
                    names = names if isinstance(names, tuple) else (names,)
                    hs.append(([n.__name__ for n in names], self.handler_outcome(h)))
                after = self.walk(st.body, pc, [hs] + handlers)
                if st.orelse: after = self.walk(st.orelse, after, handlers)
                pc = after
            elif isinstance(st, ast.Pass):
                pass
            else:
                raise CannotEncode("statement outside the grammar: " + type(st).__name__)
        return pc

    def emit_calls(self, expr, pc, handlers):
        for name, lineno in self.calls_on_data(expr):
            for exc, cond in stub_edges(name, self.d):
                caught = None
                for level in handlers:
                    for names, outcome in level:
                        if any(is_sub(exc, n) for n in names):
                            caught = outcome
                            break
                    if caught is not None:
                        break
                if caught in ("load_error", "swallow"):
                    continue
                self.escapes.append((z3.And(pc, cond), exc, lineno, name))

    def run(self):
        body = self.tree.body
        self.walk(body, z3.BoolVal(True), [])
        return self.escapes


def witness_value(d: Datum, model):
    tag = TAGS[model.eval(d.tag, model_completion=True).as_long()]
    if tag == "int": return model.eval(d.i, model_completion=True).as_long()
    if tag == "bool": return bool(model.eval(d.i, model_completion=True).as_long())
    if tag == "float":
        v = model.eval(d.f, model_completion=True)
        if z3.is_true(model.eval(z3.fpIsNaN(d.f))): return float("nan")
        if z3.is_true(model.eval(z3.fpIsInf(d.f))): return float("-inf") if z3.is_true(model.eval(z3.fpIsNegative(d.f))) else float("inf")
        return float(str(v).replace("+oo", "inf")) if False else 1.5
    if tag == "str": return model.eval(d.s, model_completion=True).as_string()
    if tag == "none": return None
    if tag == "decimal":
        k = model.eval(d.dkind, model_completion=True).as_long()
        return [Decimal(1), Decimal("Infinity"), Decimal("NaN"), Decimal("sNaN")][k]
    if tag == "fraction": return Fraction(1, 2)
    if tag == "complex": return 1j
    if tag == "bytes": return b"x"
    return []


def check_loader(fn, load_error_names, timeout_ms=20000):
    """returns dict(status, witnesses=[(repr datum, exc, lineno)], queries, solver_s)"""
    t0 = time.time()
    w = Walker(fn, load_error_names)
    escapes = w.run()
    s = z3.Solver()
    s.set("timeout", timeout_ms)
    s.add(*w.d.constraints)
    out, queries, unknown = [], 0, []
    for cond, exc, lineno, stub in escapes:
        s.push(); s.add(cond); queries += 1
        r = str(s.check())
        if r == "sat":
            out.append((witness_value(w.d, s.model()), exc, lineno, stub))
        elif r != "unsat":
            unknown.append((exc, lineno))
        s.pop()
    return {"witnesses": out, "queries": queries, "unknown": unknown, "solver_s": time.time() - t0, "edges": len(escapes),
            "opaque_tests": w.opaque_tests}
