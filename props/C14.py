"""C14 Implicit coercion is type-sound; unlinkable or uncoercible fields are refused."""
from vf.gen import Module, Plan

SETUP = '''
import dataclasses, typing, collections.abc
from typing import Any, Annotated, Generic, TypeVar
from adaptix import ProviderNotFoundError
from adaptix.conversion import ConversionRetort, allow_unlinked_optional

T = TypeVar("T")
class A:
    def __eq__(self, o): return type(o) is type(self)
    def __hash__(self): return 1
class B(A): pass
@dataclasses.dataclass
class G(Generic[T]):
    x: T
@dataclasses.dataclass
class M1:
    x: int
@dataclasses.dataclass
class M2:
    x: int
@dataclasses.dataclass
class M3:
    x: str
@dataclasses.dataclass
class M4:
    x: typing.Optional[int]
class IntList(typing.List[int]): pass
K_ = TypeVar("K_"); V_ = TypeVar("V_")
@dataclasses.dataclass
class G2(Generic[K_, V_]):
    x: typing.Dict[V_, K_]                 # the field mentions the variables in another order than Generic[K_, V_] declares them
@dataclasses.dataclass
class MDsi:
    x: typing.Dict[str, int]
@dataclasses.dataclass
class MDis:
    x: typing.Dict[int, str]

POOL = {
    "int": int, "bool": bool, "str": str, "A": A, "B": B, "G_int": G[int], "G_str": G[str],
    "List_int": typing.List[int], "List_str": typing.List[str], "List_bool": typing.List[bool], "Seq_int": typing.Sequence[int],
    "Set_int": typing.Set[int], "Tuple_int": typing.Tuple[int, ...], "Dict_str_int": typing.Dict[str, int], "Dict_str_str": typing.Dict[str, str],
    "Opt_int": typing.Optional[int], "Opt_str": typing.Optional[str], "Opt_List_int": typing.Optional[typing.List[int]],
    "Opt_List_str": typing.Optional[typing.List[str]], "U_int_str": typing.Union[int, str], "U_int_str_none": typing.Union[int, str, None],
    "Ann_int": Annotated[int, "m"], "Any": Any, "M1": M1, "M2": M2, "M3": M3, "M4": M4, "List_M1": typing.List[M1], "List_M3": typing.List[M3],
    "Opt_M1": typing.Optional[M1], "Seq_str": typing.Sequence[str], "IntList": IntList, "List_Opt_int": typing.List[typing.Optional[int]],
    "Dict_str_List_int": typing.Dict[str, typing.List[int]], "Dict_str_List_str": typing.Dict[str, typing.List[str]],
    "Dict_int_str": typing.Dict[int, str], "G2_int_str": G2[int, str], "G2_str_int": G2[str, int], "MDsi": MDsi, "MDis": MDis,
}
NAMES = list(POOL)

# ---- conforming values of a source type, built from selectors and symbolic primitives
def mk(name, sel, i, s):
    """a value that conforms to POOL[name]; sel walks through the union branches / container lengths"""
    if name == "int": return i
    if name == "bool": return i > 0
    if name == "str": return s
    if name == "A": return A()
    if name == "B": return B()
    if name == "G_int": return G(i)
    if name == "G_str": return G(s)
    if name == "List_int": return [i] if sel else []
    if name == "List_str": return [s] if sel else []
    if name == "List_bool": return [i > 0] if sel else []
    if name == "Seq_int": return (i,) if sel else [i, i]
    if name == "Set_int": return {pick(sel, 3)}
    if name == "Tuple_int": return (i,) if sel else ()
    if name == "Dict_str_int": return {"k": i} if sel else {}
    if name == "Dict_str_str": return {"k": s} if sel else {}
    if name == "Opt_int": return i if sel else None
    if name == "Opt_str": return s if sel else None
    if name == "Opt_List_int": return [i] if sel else None
    if name == "Opt_List_str": return [s] if sel else None
    if name == "U_int_str": return i if sel else s
    if name == "U_int_str_none": return i if sel == 1 else (s if sel == 2 else None)
    if name == "Ann_int": return i
    if name == "Any": return i if sel == 1 else (s if sel == 2 else ([s] if sel == 3 else None))
    if name == "M1": return M1(i)
    if name == "M2": return M2(i)
    if name == "M3": return M3(s)
    if name == "M4": return M4(i if sel else None)
    if name == "List_M1": return [M1(i)] if sel else []
    if name == "List_M3": return [M3(s)] if sel else []
    if name == "Opt_M1": return M1(i) if sel else None
    if name == "Seq_str": return (s,) if sel else [s]
    if name == "IntList": return IntList([i]) if sel else IntList()
    if name == "List_Opt_int": return [i, None] if sel else [None]
    if name == "Dict_str_List_int": return {"k": [i]} if sel else {"k": []}
    if name == "Dict_str_List_str": return {"k": [s]} if sel else {}
    if name == "Dict_int_str": return {1: s} if sel else {}                 # (keys are fixed: symbolic keys are realised by hashing and never exhaust)
    if name == "G2_int_str": return G2({"k": i} if sel else {})
    if name == "G2_str_int": return G2({1: s} if sel else {})
    if name == "MDsi": return MDsi({"k": i} if sel else {})
    if name == "MDis": return MDis({1: s} if sel else {})
    raise KeyError(name)

# ---- typing semantics: does a value conform to a type of the pool?
def conforms(name, v):
    if name in ("int", "Ann_int"): return isinstance(v, int)
    if name == "bool": return type(v) is bool
    if name == "str": return isinstance(v, str)
    if name == "A": return isinstance(v, A)
    if name == "B": return isinstance(v, B)
    if name == "G_int": return isinstance(v, G) and isinstance(v.x, int)
    if name == "G_str": return isinstance(v, G) and isinstance(v.x, str)
    if name in ("List_int", "IntList"): return isinstance(v, IntList if name == "IntList" else list) and all(isinstance(e, int) for e in v)
    if name == "List_str": return isinstance(v, list) and all(isinstance(e, str) for e in v)
    if name == "List_bool": return isinstance(v, list) and all(type(e) is bool for e in v)
    if name == "Seq_int": return isinstance(v, collections.abc.Sequence) and not isinstance(v, str) and all(isinstance(e, int) for e in v)
    if name == "Seq_str": return isinstance(v, collections.abc.Sequence) and not isinstance(v, str) and all(isinstance(e, str) for e in v)
    if name == "Set_int": return isinstance(v, set) and all(isinstance(e, int) for e in v)
    if name == "Tuple_int": return isinstance(v, tuple) and all(isinstance(e, int) for e in v)
    if name == "Dict_str_int": return isinstance(v, dict) and all(isinstance(k, str) and isinstance(e, int) for k, e in v.items())
    if name == "Dict_str_str": return isinstance(v, dict) and all(isinstance(k, str) and isinstance(e, str) for k, e in v.items())
    if name == "Dict_str_List_int": return isinstance(v, dict) and all(isinstance(k, str) and conforms("List_int", e) for k, e in v.items())
    if name == "Dict_str_List_str": return isinstance(v, dict) and all(isinstance(k, str) and conforms("List_str", e) for k, e in v.items())
    if name == "Opt_int": return v is None or isinstance(v, int)
    if name == "Opt_str": return v is None or isinstance(v, str)
    if name == "Opt_List_int": return v is None or conforms("List_int", v)
    if name == "Opt_List_str": return v is None or conforms("List_str", v)
    if name == "U_int_str": return isinstance(v, (int, str))
    if name == "U_int_str_none": return v is None or isinstance(v, (int, str))
    if name == "Any": return True
    if name in ("M1", "M2"): return type(v) is POOL[name] and isinstance(v.x, int)
    if name == "M3": return type(v) is M3 and isinstance(v.x, str)
    if name == "M4": return type(v) is M4 and (v.x is None or isinstance(v.x, int))
    if name == "List_M1": return isinstance(v, list) and all(conforms("M1", e) for e in v)
    if name == "List_M3": return isinstance(v, list) and all(conforms("M3", e) for e in v)
    if name == "Opt_M1": return v is None or conforms("M1", v)
    if name == "List_Opt_int": return isinstance(v, list) and all(e is None or isinstance(e, int) for e in v)
    if name == "Dict_int_str": return isinstance(v, dict) and all(isinstance(k, int) and isinstance(e, str) for k, e in v.items())
    if name in ("G2_int_str", "MDsi"): return type(v) is (G2 if name.startswith("G2") else MDsi) and conforms("Dict_str_int", v.x)
    if name in ("G2_str_int", "MDis"): return type(v) is (G2 if name.startswith("G2") else MDis) and conforms("Dict_int_str", v.x)
    raise KeyError(name)

def mk_pair(sname, dname):
    Src = dataclasses.make_dataclass("Src_" + sname, [("a", POOL[sname])])
    Dst = dataclasses.make_dataclass("Dst_" + dname, [("a", POOL[dname])])
    return Src, Dst

def try_converter(Src, Dst, recipe=()):
    try:
        return ("ok", ConversionRetort(recipe=list(recipe)).get_converter(Src, Dst))
    except ProviderNotFoundError as e:
        return ("refused", "ProviderNotFoundError")
    except Exception as e:
        return ("error", type(e).__name__ + ": " + str(e)[:200])
'''

# the documented acceptance relation (docs/conversion/tutorial.rst "Type coercion"), written independently
REF = '''
ITER = {"List_int": ("list", "int"), "List_str": ("list", "str"), "List_bool": ("list", "bool"), "Seq_int": ("seq", "int"), "Seq_str": ("seq", "str"),
        "Set_int": ("set", "int"), "Tuple_int": ("tuple", "int"), "List_M1": ("list", "M1"), "List_M3": ("list", "M3"), "List_Opt_int": ("list", "Opt_int")}
DICT = {"Dict_str_int": ("str", "int"), "Dict_str_str": ("str", "str"), "Dict_str_List_int": ("str", "List_int"), "Dict_str_List_str": ("str", "List_str"), "Dict_int_str": ("int", "str")}
UNION = {"Opt_int": {"int", "None"}, "Opt_str": {"str", "None"}, "Opt_List_int": {"List_int", "None"}, "Opt_List_str": {"List_str", "None"},
         "U_int_str": {"int", "str"}, "U_int_str_none": {"int", "str", "None"}, "Opt_M1": {"M1", "None"}}
MODEL_FIELD = {"M1": "int", "M2": "int", "M3": "str", "M4": "Opt_int", "G_int": "int", "G_str": "str", "G2_int_str": "Dict_str_int", "G2_str_int": "Dict_int_str",
               "MDsi": "Dict_str_int", "MDis": "Dict_int_str"}    # G is a (generic) model too
PLAIN_CLASSES = {"int": int, "bool": bool, "str": str, "A": A, "B": B, "M1": M1, "M2": M2, "M3": M3, "M4": M4, "IntList": IntList, "MDsi": MDsi, "MDis": MDis}
def strip(n): return "int" if n == "Ann_int" else n

def ref_coercible(s, d):
    s, d = strip(s), strip(d)
    if s == d: return True                                   # same type
    if d == "Any": return True                               # destination Any
    if s in PLAIN_CLASSES and d in PLAIN_CLASSES and issubclass(PLAIN_CLASSES[s], PLAIN_CLASSES[d]) and s != "IntList":
        return True                                          # non-generic subclass (IntList derives from a parametrised generic)
    if d in UNION:
        if s in UNION:
            if UNION[s] <= UNION[d]: return True             # source union is a subset of destination union (by ==)
        elif s in UNION[d]: return True
    if s in UNION and d in UNION and len(UNION[s]) == 2 and len(UNION[d]) == 2 and "None" in UNION[s] and "None" in UNION[d]:
        si, di = next(iter(UNION[s] - {"None"})), next(iter(UNION[d] - {"None"}))
        if ref_coercible(si, di): return True                # Optional -> Optional, element-wise
    if s in ITER and d in ITER and ref_coercible(ITER[s][1], ITER[d][1]): return True      # builtin iterables, element-wise
    if s in DICT and d in DICT and ref_coercible(DICT[s][0], DICT[d][0]) and ref_coercible(DICT[s][1], DICT[d][1]): return True
    if s in MODEL_FIELD and d in MODEL_FIELD and ref_coercible(MODEL_FIELD[s], MODEL_FIELD[d]): return True   # models, field-wise
    return False
'''

NAT = '''
def nat_refusal_table():
    ev, bad = 0, []
    for s in NAMES:
        for d in NAMES:
            ev += 1
            if not chk_refusal_table(s, d): bad.append({"s": repr(s), "d": repr(d)})
    return {"status": "REFUTED" if bad else "CONFIRMED", "cexs": bad[:5], "evaluations": ev,
            "note": "labelled enumeration (no data dimension): creation succeeds exactly for the documented relation, else ProviderNotFoundError"}

# hints outside the typed pool (no value generator / conformance oracle): creation must still either succeed or be REFUSED, never fail otherwise
ODD = {"pipe_int_str": int | str, "pipe_M1_none": M1 | None, "pipe_list_none": list[int] | None, "abc_Sequence": collections.abc.Sequence, "Sequence_bare": typing.Sequence,
       "Iterable_bare": typing.Iterable, "Mapping_bare": typing.Mapping, "abc_Mapping": collections.abc.Mapping, "Tuple_empty": typing.Tuple[()], "tuple_bare": tuple,
       "list_bare": list, "dict_bare": dict, "List_bare": typing.List, "Tuple_int_str": typing.Tuple[int, str], "Literal_1": typing.Literal[1], "NoneType": type(None),
       "None": None, "Callable": typing.Callable[[int], int], "Type_int": typing.Type[int], "TypeVar": T, "FrozenSet_bare": typing.FrozenSet, "Deque_int": typing.Deque[int],
       "object": object, "bytes": bytes, "pipe_int_none": int | None}
POOL_ALL = dict(POOL); POOL_ALL.update(ODD)
def nat_odd_hints():
    ev, bad = 0, []
    for o in ODD:
        for n in list(POOL) + list(ODD):
            for s, d in ((o, n), (n, o)):
                ev += 1
                if not chk_odd_hints(s, d): bad.append({"s": repr(s), "d": repr(d)})
    return {"status": "REFUTED" if bad else "CONFIRMED", "cexs": bad[:5], "evaluations": ev,
            "note": "labelled enumeration (no data dimension): converter creation for hints outside the typed pool either succeeds or is refused with ProviderNotFoundError"}
def chk_odd_hints(s, d):
    Src = dataclasses.make_dataclass("Src_" + s, [("a", POOL_ALL[s])])
    Dst = dataclasses.make_dataclass("Dst_" + d, [("a", POOL_ALL[d])])
    r = try_converter(Src, Dst)
    if r[0] == "error": return False
    if r[0] == "ok" and s in POOL and d in ("pipe_int_str", "abc_Sequence", "Sequence_bare", "Tuple_int_str", "Literal_1", "bytes", "Deque_int", "pipe_M1_none", "NoneType", "None"):
        # a few destinations with an obvious conformance test: accepted pairs must be sound on a sample value
        out = r[1](Src(mk(s, 1, 1, "s"))).a
        okd = {"pipe_int_str": lambda v: isinstance(v, (int, str)), "abc_Sequence": lambda v: isinstance(v, collections.abc.Sequence), "Sequence_bare": lambda v: isinstance(v, collections.abc.Sequence),
               "Tuple_int_str": lambda v: isinstance(v, tuple) and len(v) == 2, "Literal_1": lambda v: v == 1 and type(v) is int, "bytes": lambda v: isinstance(v, bytes),
               "Deque_int": lambda v: isinstance(v, collections.deque), "pipe_M1_none": lambda v: v is None or type(v) is M1, "NoneType": lambda v: v is None, "None": lambda v: v is None}[d]
        return okd(out)
    return True

def chk_refusal_table(s, d):
    Src, Dst = mk_pair(s, d)
    r = try_converter(Src, Dst)
    if r[0] == "error": return False
    return ref_coercible(s, d) or r[0] == "refused"       # accepted only when the documented relation holds (over-refusal is not a violation)

def nat_unlinked():
    """a destination field without a linked source: required -> refused; optional -> refused under the default forbid policy,
    accepted with allow_unlinked_optional"""
    Src = dataclasses.make_dataclass("S", [("a", int)])
    DReq = dataclasses.make_dataclass("DReq", [("a", int), ("b", int)])
    DOpt = dataclasses.make_dataclass("DOpt", [("a", int), ("b", int, dataclasses.field(default=5))])
    ok = (try_converter(Src, DReq)[0] == "refused" and try_converter(Src, DOpt)[0] == "refused"
          and try_converter(Src, DReq, [allow_unlinked_optional()])[0] == "refused")
    r = try_converter(Src, DOpt, [allow_unlinked_optional()])
    ok = ok and r[0] == "ok" and r[1](Src(3)) == DOpt(3, 5)
    return {"status": "CONFIRMED" if ok else "REFUTED", "cexs": [] if ok else [{}], "evaluations": 4}

def chk_unlinked():
    return nat_unlinked()["status"] == "CONFIRMED"
'''


def src_module(sname, tmo):
    m = Module(f"c14_src_{sname}").pre(SETUP).pre(REF)
    m.pre(f'''
SNAME = {sname!r}
CONV = []
for _d in NAMES:
    _Src, _Dst = mk_pair(SNAME, _d)
    _r = try_converter(_Src, _Dst)
    if _r[0] == "ok": CONV.append((_d, _Src, _r[1]))
NC = max(1, len(CONV))
def sound(di, sel, i, s):
    """every accepted pair is semantically sound: a conforming source value yields a destination value that conforms to the
    destination type"""
    if not CONV: return True
    dname, Src, conv = CONV[pick(di, NC)]
    v = mk(SNAME, sel, i, s)
    out = conv(Src(v))
    return conforms(dname, out.a)
''')
    m.ob(f"sound_{sname}", "di: int, sel: int, i: int, s: str", "return sound(di, sel, i, s)",
         pre=["0 <= di < NC", "0 <= sel <= 3", "len(s) <= 1"], timeout=tmo,
         family="semantic soundness of every accepted (source, destination) field-type pair; source value symbolic",
         bounds=f"source type {sname}; every accepted destination of the 40-type pool; conforming values: all union branches, None, containers of length 0..2, any int, str len<=1")
    return m


def build(tier, seed):
    quick = tier == "quick"
    tmo = 90 if quick else 600
    names = ["int", "bool", "str", "A", "B", "G_int", "G_str", "List_int", "List_str", "List_bool", "Seq_int", "Set_int", "Tuple_int", "Dict_str_int",
             "Dict_str_str", "Opt_int", "Opt_str", "Opt_List_int", "Opt_List_str", "U_int_str", "U_int_str_none", "Ann_int", "Any", "M1", "M2", "M3", "M4",
             "List_M1", "List_M3", "Opt_M1", "Seq_str", "IntList", "List_Opt_int", "Dict_str_List_int", "Dict_str_List_str",
             "Dict_int_str", "G2_int_str", "G2_str_int", "MDsi", "MDis"]
    mods = [src_module(n, tmo) for n in names]
    mt = Module("c14_table").pre(SETUP).pre(REF)
    mt.nat("refusal_table", NAT, timeout=300, family="acceptance relation (labelled enumeration)",
           bounds="all 40 x 40 ordered pairs of the pool vs the documented relation")
    mt.obs.append(type(mt.obs[0])(name="odd_hints", module=mt.key, kind="nat", timeout=300,
                                  bounds="25 hints outside the typed pool (PEP 604 unions, bare abstract generics, Tuple[()], constant-length tuple, Literal, None, Callable, Type, "
                                         "TypeVar, object, bytes, ...) x all 65 hints, both directions: converter creation succeeds or is refused with ProviderNotFoundError; "
                                         "accepted pairs into 10 destinations with an obvious conformance test are sound on a sample value",
                                  family="acceptance relation: hints outside the typed pool (labelled enumeration)"))
    mt.obs.append(type(mt.obs[0])(name="unlinked", module=mt.key, kind="nat", timeout=60, bounds="required / optional unlinked destination field x policy",
                                  family="unlinked destination fields (labelled enumeration)"))
    from props.C13 import build as build_c13
    for m13 in build_c13(tier, seed).modules:
        m13.obs = [o for o in m13.obs if o.name == "history"]         # a refused pair stays refused whatever was requested before
        mods.append(m13)
    return Plan("C14", mods + [mt], assumptions=["conforms() is the structural typing semantics of the pool types"],
                bounds={"pool": "40 types", "values": "see obligations"}, outside=["type terms outside the pool", "user coercers"])
