from vf.gen import Plan
from props.fam_model import MEMBERS, member_module, LOAD_PARAMS, LOAD_ARGS, load_slices
from props.fam_l2 import l2_module


def build(tier, seed):
    mods = [l2_module("C05", tier)]

    model_names = ['plain', 'rename', 'nested', 'nested2', 'forbid_nested', 'kwargs', 'rest_field_rename', 'saturator', 'as_list_forbid', 'list_gaps', 'list_in_dict', 'dict_in_list', 'pairs_map', 'req_two_crowns', 'req_three_levels'] if tier == "quick" else list(MEMBERS)
    for name in model_names:
        mm = member_module("C05", name)
        for sl, pre in load_slices(name, allow_bug=False).items():
            mm.ob(f"model_{sl}_{name}", LOAD_PARAMS, f"return c05_model(MEMBER, MODEL, TREE, LOADERS, lambda: build_data(MEMBER, TREE, {LOAD_ARGS}))",
                  pre=pre, timeout=120 if tier == "quick" else 300, family="generated model loaders (stub fields) x name_mapping recipes",
                  bounds="slice " + sl + ": presence bits, symbolic stub codes, unknown keys, wrong node/root kinds, list truncation; 6 modes")

        mods.append(mm)
    return Plan("C05", mods, assumptions=["CrossHair models of builtins"], bounds={}, outside=[])
