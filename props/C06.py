from vf.gen import Plan, Module
from props.fam_model import MEMBERS, member_module, LOAD_PARAMS, LOAD_ARGS, load_slices
from props.fam_l1 import l1_loader_module
from props.fam_l3 import l3_module
from props.fam_l2 import l2_module, l2_dump_module


def build(tier, seed):
    mods = [l1_loader_module("C06", tier), l2_module("C06", tier), l2_dump_module("C06", tier)]
    mods.append(l3_module("C06", tier))

    model_names = ['plain', 'rename', 'nested', 'nested2', 'forbid_nested', 'kwargs', 'rest_field_rename', 'saturator', 'as_list_forbid', 'list_gaps', 'list_in_dict', 'dict_in_list', 'pairs_map', 'req_two_crowns', 'req_three_levels'] if tier == "quick" else list(MEMBERS)
    for name in model_names:
        mm = member_module("C06", name)
        for sl, pre in load_slices(name, allow_bug=True).items():
            mm.ob(f"model_{sl}_{name}", LOAD_PARAMS, f"return c06_model(MEMBER, MODEL, TREE, LOADERS, lambda: build_data(MEMBER, TREE, {LOAD_ARGS}), (v0 == -2 and p0) or (v1 == -2 and p1) or (v2 == -2 and p2))",
                  pre=pre, timeout=120 if tier == "quick" else 300, family="generated model loaders (stub fields) x name_mapping recipes",
                  bounds="slice " + sl + ": presence bits, symbolic stub codes, unknown keys, wrong node/root kinds, list truncation; 6 modes")

        mods.append(mm)
    mo = Module("c06_dump_optional").pre('''
from typing import TypedDict, NotRequired
import dataclasses
class TDM(TypedDict):
    a: Stub
    b: NotRequired[Stub]
    c: NotRequired[Stub]
@dataclasses.dataclass
class DCM:
    a: Stub
    b: Stub
def raising_dumper(o):
    if o.n == -9: raise KeyError("boom")
    if o.n == -8: raise AttributeError("boom")
    if o.n == -7: raise IndexError("boom")
    return o.n
DS = {dt: Retort(recipe=[dumper(Stub, raising_dumper)], debug_trail=dt) for dt in DT_MODES}
D_TD = {dt: r.get_dumper(TDM) for dt, r in DS.items()}
D_DC = {dt: r.get_dumper(DCM) for dt, r in DS.items()}
def dump_optional(pb, pc, va, vb, vc):
    """a field dumper that raises (KeyError / AttributeError / IndexError: the classes the generated code itself catches for absent
    optional fields) fails the dump in every debug mode; otherwise the modes agree on the result"""
    obj = {"a": Stub(va)}
    if pb: obj["b"] = Stub(vb)
    if pc: obj["c"] = Stub(vc)
    bad = va in (-9, -8, -7) or (pb and vb in (-9, -8, -7)) or (pc and vc in (-9, -8, -7))
    exp = {k: v.n for k, v in obj.items()}
    for dt in DT_MODES:
        r = run(D_TD[dt], dict(obj))
        if bad:
            if r[0]: return False
        elif not r[0] or r[1] != exp: return False
        r = run(D_DC[dt], DCM(Stub(va), Stub(vb)))
        bad2 = va in (-9, -8, -7) or vb in (-9, -8, -7)
        if bad2:
            if r[0]: return False
        elif not r[0] or r[1] != {"a": va, "b": vb}: return False
    return True
''')
    mo.ob("dump_optional_fields", "pb: bool, pc: bool, va: int, vb: int, vc: int", "return dump_optional(pb, pc, va, vb, vc)",
          pre=["va >= -9 and vb >= -9 and vc >= -9"], timeout=120 if tier == "quick" else 600,
          family="model dumpers with optional output fields: a raising field dumper fails the dump in every mode",
          bounds="TypedDict with 2 NotRequired keys (presence bits) and a dataclass; payloads symbolic; dumper raises KeyError / AttributeError / IndexError for 3 codes")
    mods.append(mo)
    mx = Module("c06_extra").pre('''
RS = six_retorts()
SA_TYPES = (Set[Any], FrozenSet[object], Union[FrozenSet[Any], List[Any]], Dict[str, Set[Any]], List[FrozenSet[object]], Optional[Set[Any]])
SA_LD = [{k: r.get_loader(t) for k, r in RS.items()} for t in SA_TYPES]
ELS = (1, [1], {}, (1,), None, "a", [[]], {"k": [1]})
def any_sets_agree(ti, k0, k1, wrap):
    """sets whose elements are taken as is: the three debug modes agree on the KIND of outcome (value / LoadError / other exception) and on the value"""
    els = [ELS[pick(k0, 8)], ELS[pick(k1, 8)]]
    ti = pick(ti, len(SA_TYPES))
    data = {"k": els} if ti == 3 else ([els] if ti == 4 else els)
    if wrap: data = None if ti == 5 else 5
    for strict in (True, False):
        outs = [outcome(SA_LD[ti][(strict, dt)], data) for dt in DT_MODES]
        if len({o[0] for o in outs}) != 1: return False
        if outs[0][0] == "ok" and not (outs[0][2] == outs[1][2] == outs[2][2]): return False
    return True
''')
    mx.ob("any_sets_modes_agree", "ti: int, k0: int, k1: int, wrap: bool", "return any_sets_agree(ti, k0, k1, wrap)", pre=["0 <= ti < 6", "0 <= k0 < 8 and 0 <= k1 < 8"], timeout=120,
          family="sets with as-is elements (Any / object): hashable and unhashable elements, the three debug modes agree on the kind of outcome",
          bounds="6 types (Set[Any], FrozenSet[object], inside Union / Dict / List / Optional) x 2 elements from an 8-value pool (int, list, dict, tuple, None, str, nested) x strict / lax")
    mods.append(mx)
    mk = Module("c06_mapkinds").pre('''
import collections, types, dataclasses
from adaptix import Retort, name_mapping
# the datum of a model loader is any Mapping: dict subclasses with __missing__ (defaultdict, Counter), OrderedDict, read-only proxies, ChainMap, UserDict
@dataclasses.dataclass
class MK:
    first: Stub = dataclasses.field(default_factory=lambda: Stub(90))      # the FIRST field is optional
    req: Stub = None
    last: Stub = dataclasses.field(default_factory=lambda: Stub(92))
    def __post_init__(self):
        if self.req is None: raise TypeError("req is required")
@dataclasses.dataclass
class MKr:
    req: Stub
    opt: Stub = dataclasses.field(default_factory=lambda: Stub(91))
MK_RECIPES = {"plain": [], "renamed": [name_mapping(MK, map={"first": "f0"}), name_mapping(MKr, map={"opt": ("m", "o")})]}
MK_RS = {(rn, k): r for rn, rc in MK_RECIPES.items() for k, r in six_retorts(rc + STUB_RECIPE).items()}
MK_LD = {key: (r.get_loader(MKr), r.get_loader(MK)) for key, r in MK_RS.items()}
def _ctr(d):
    c = collections.Counter(); c.update({k: 0 for k in d}); 
    for k, v in d.items(): dict.__setitem__(c, k, v)
    return c
MAP_KINDS = (dict, collections.OrderedDict, lambda d: collections.defaultdict(lambda: 5, d), lambda d: collections.defaultdict(list, d), _ctr,
             types.MappingProxyType, lambda d: collections.ChainMap(d, {}), collections.UserDict)
def map_kinds(rn, mk, p_opt, v_req, v_opt, which):
    rn = ("plain", "renamed")[pick(rn, 2)]
    conv = MAP_KINDS[pick(mk, len(MAP_KINDS))]
    for strict in (True, False):
        outs = []
        for dt in DT_MODES:
            l_r, l_k = MK_LD[(rn, (strict, dt))]
            if which:
                data = {"req": v_req}
                if p_opt:
                    if rn == "renamed": data["m"] = conv({"o": v_opt})
                    else: data["opt"] = v_opt
                elif rn == "renamed": data["m"] = conv({})
                o = outcome(l_r, conv(data))
                sig = (o[0], (o[2].req, o[2].opt) if o[0] == "ok" else None)
            else:
                data = {"req": v_req}
                if p_opt: data["f0" if rn == "renamed" else "first"] = v_opt
                o = outcome(l_k, conv(data))
                sig = (o[0], (o[2].first, o[2].req, o[2].last) if o[0] == "ok" else None)
            outs.append(sig)
        if outs[0] != outs[1] or outs[1] != outs[2]: return False
        # an absent optional key means the default, whatever __missing__ of the datum would invent
        if outs[0][0] == "ok":
            if which and outs[0][1] != (Stub(v_req), Stub(v_opt) if p_opt else Stub(91)): return False
            if not which and outs[0][1] != (Stub(v_opt) if p_opt else Stub(90), Stub(v_req), Stub(92)): return False
    return True
''')
    mk.ob("mapping_kinds_modes_agree", "rn: int, mk: int, p_opt: bool, v_req: int, v_opt: int, which: bool", "return map_kinds(rn, mk, p_opt, v_req, v_opt, which)",
          pre=["0 <= rn < 2", "0 <= mk < 8", "v_req >= -1 and v_opt >= -1"], timeout=120 if tier == "quick" else 600,
          family="model loaders given every kind of Mapping (dict subclasses with __missing__, read-only proxies, ChainMap, UserDict): the three debug modes agree and an absent optional key is the default",
          bounds="2 models (optional field first / last, nested renamed path) x 2 recipes x 8 mapping kinds x presence of the optional key; stub codes symbolic; strict / lax")
    mods.append(mk)
    return Plan("C06", mods, assumptions=["CrossHair models of builtins (floats as reals: numeric boundary regions are owned by the E2 kernels)"],
                bounds={}, outside=["strings longer than the bound"])
