from vf.gen import Plan
from props.fam_model import MEMBERS, member_module, LOAD_PARAMS, LOAD_ARGS, load_slices
from props.fam_l1 import l1_loader_module
from props.fam_l2 import l2_module, l2_dump_module


def build(tier, seed):
    mods = [l1_loader_module("C06", tier), l2_module("C06", tier), l2_dump_module("C06", tier)]

    model_names = ['plain', 'rename', 'nested', 'nested2', 'forbid_nested', 'kwargs', 'rest_field_rename', 'saturator', 'as_list_forbid', 'list_gaps', 'list_in_dict', 'dict_in_list', 'pairs_map'] if tier == "quick" else list(MEMBERS)
    for name in model_names:
        mm = member_module("C06", name)
        for sl, pre in load_slices(name, allow_bug=True).items():
            mm.ob(f"model_{sl}_{name}", LOAD_PARAMS, f"return c06_model(MEMBER, MODEL, TREE, LOADERS, lambda: build_data(MEMBER, TREE, {LOAD_ARGS}), (v0 == -2 and p0) or (v1 == -2 and p1) or (v2 == -2 and p2))",
                  pre=pre, timeout=120 if tier == "quick" else 300, family="generated model loaders (stub fields) x name_mapping recipes",
                  bounds="slice " + sl + ": presence bits, symbolic stub codes, unknown keys, wrong node/root kinds, list truncation; 6 modes")

        mods.append(mm)
    return Plan("C06", mods, assumptions=["CrossHair models of builtins (floats as reals: numeric boundary regions are owned by the E2 kernels)"],
                bounds={}, outside=["strings longer than the bound"])
