"""Generated-model family (DESIGN.md 5/C03): (model shape, name_mapping recipe) members with the expected outer layout stated
by construction from the documented rules, a reference loader/dumper over that layout, and symbolic input construction.
Shared by C03, C05, C06, C19, C20 and C01."""
from vf.gen import Module

# Each member: name -> dict(model=..., recipe=<python expr>, layout={field: path|None}, extra_in=..., extra_out=..., omit=[...])
# Field order is always (a, b_, c_d).  Models:  MD: a required, b_/c_d defaulted (dict layouts);  ML: all required (list layouts);
# MR: MD + rest: Any (extra target); MK: class with **kwargs; MS: MD + attribute set by a saturator.
MEMBERS = {
    "plain": dict(model="MD", recipe="[]", layout={"a": ("a",), "b_": ("b",), "c_d": ("c_d",)}),
    "rename": dict(model="MD", recipe="[name_mapping(MD, map={'a': 'x'})]", layout={"a": ("x",), "b_": ("b",), "c_d": ("c_d",)}),
    "nested": dict(model="MD", recipe="[name_mapping(MD, map={'a': ('p', 'q'), 'c_d': ('p', 'r')})]",
                   layout={"a": ("p", "q"), "b_": ("b",), "c_d": ("p", "r")}),
    "nested2": dict(model="MD", recipe="[name_mapping(MD, map={'a': ('p', 'q', 'z'), 'b_': ('p', 'w')})]",
                    layout={"a": ("p", "q", "z"), "b_": ("p", "w"), "c_d": ("c_d",)}),
    "camel": dict(model="MD", recipe="[name_mapping(MD, name_style=NameStyle.CAMEL)]", layout={"a": ("a",), "b_": ("b",), "c_d": ("cD",)}),
    "upper_kebab": dict(model="MD", recipe="[name_mapping(MD, name_style=NameStyle.UPPER_KEBAB)]", layout={"a": ("A",), "b_": ("B",), "c_d": ("C-D",)}),
    "no_trim": dict(model="MD", recipe="[name_mapping(MD, trim_trailing_underscore=False)]", layout={"a": ("a",), "b_": ("b_",), "c_d": ("c_d",)}),
    "skip": dict(model="MD", recipe="[name_mapping(MD, skip=['b_'])]", layout={"a": ("a",), "b_": None, "c_d": ("c_d",)}),
    "only": dict(model="MD", recipe="[name_mapping(MD, only=['a'])]", layout={"a": ("a",), "b_": None, "c_d": None}),
    "skip_gt_only": dict(model="MD", recipe="[name_mapping(MD, skip=['b_'], only=['a', 'b_'])]", layout={"a": ("a",), "b_": None, "c_d": None}),
    "map_none": dict(model="MD", recipe="[name_mapping(MD, map={'b_': None}, only=['a', 'b_', 'c_d'])]", layout={"a": ("a",), "b_": None, "c_d": ("c_d",)}),
    "map_gt_style": dict(model="MD", recipe="[name_mapping(MD, name_style=NameStyle.UPPER_SNAKE, map={'a': 'x', 'b_': 'b_'})]",
                         layout={"a": ("x",), "b_": ("b_",), "c_d": ("C_D",)}),
    "ellipsis": dict(model="MD", recipe="[name_mapping(MD, map={'a': ('p', ...), 'b_': ('p', ...)})]", layout={"a": ("p", "a"), "b_": ("p", "b"), "c_d": ("c_d",)}),
    "ellipsis_style": dict(model="MD", recipe="[name_mapping(MD, name_style=NameStyle.CAMEL, map={'c_d': ('p', ...)})]",
                           layout={"a": ("a",), "b_": ("b",), "c_d": ("p", "cD")}),
    "pairs_map": dict(model="MD", recipe="[name_mapping(MD, map=[('a|c_d', ('g', ...)), ('a', 'never')])]",
                      layout={"a": ("g", "a"), "b_": ("b",), "c_d": ("g", "c_d")}),
    "stack_override": dict(model="MD", recipe="[name_mapping(MD, map={'a': 'x'}), name_mapping(MD, map={'a': 'y', 'c_d': 'z'})]",
                           layout={"a": ("x",), "b_": ("b",), "c_d": ("z",)}),
    # a bare Ellipsis in a dict-form map pins the field to its generated key AT THAT provider: later providers / later map elements do not get a say
    "stack_ellipsis": dict(model="MD", recipe="[name_mapping(MD, map={'a': ..., 'c_d': ...}), name_mapping(MD, name_style=NameStyle.CAMEL, map={'a': 'never', 'b_': 'bee'})]",
                           layout={"a": ("a",), "b_": ("bee",), "c_d": ("cD",)}),        # (name_style is taken from the first provider that sets one: the generated key of c_d is cD)
    "map_list_ellipsis": dict(model="MD", recipe="[name_mapping(MD, map=[{'a': ...}, {'a': 'never', 'c_d': ('g', ...)}, ('c_d', 'never2')])]",
                              layout={"a": ("a",), "b_": ("b",), "c_d": ("g", "c_d")}),
    "stack_style": dict(model="MD", recipe="[name_mapping(MD, name_style=NameStyle.CAMEL), name_mapping(MD, name_style=NameStyle.UPPER_KEBAB, map={'a': 'x'})]",
                        layout={"a": ("x",), "b_": ("b",), "c_d": ("cD",)}),
    "stack_skip": dict(model="MD", recipe="[name_mapping(MD, skip=['c_d']), name_mapping(MD, skip=['b_'], trim_trailing_underscore=False)]",
                       layout={"a": ("a",), "b_": ("b_",), "c_d": None}),
    "forbid": dict(model="MD", recipe="[name_mapping(MD, extra_in=ExtraForbid())]", layout={"a": ("a",), "b_": ("b",), "c_d": ("c_d",)}, extra_in="forbid"),
    "forbid_rename": dict(model="MD", recipe="[name_mapping(MD, map={'a': 'x'}, extra_in=ExtraForbid())]",
                          layout={"a": ("x",), "b_": ("b",), "c_d": ("c_d",)}, extra_in="forbid"),
    "forbid_nested": dict(model="MD", recipe="[name_mapping(MD, map={'a': ('p', 'q'), 'c_d': ('p', 'r')}, extra_in=ExtraForbid())]",
                          layout={"a": ("p", "q"), "b_": ("b",), "c_d": ("p", "r")}, extra_in="forbid"),
    "kwargs": dict(model="MK", recipe="[name_mapping(MK, extra_in=ExtraKwargs())]", layout={"a": ("a",), "b_": ("b",), "c_d": ("c_d",)}, extra_in="kwargs"),
    "rest_field": dict(model="MR", recipe="[name_mapping(MR, extra_in='rest', extra_out='rest')]", layout={"a": ("a",), "b_": ("b",), "c_d": ("c_d",)},
                       extra_in="field", extra_out="field"),
    "rest_field_rename": dict(model="MR", recipe="[name_mapping(MR, map={'a': 'x', 'c_d': ('p', 'r')}, extra_in='rest', extra_out='rest')]",
                              layout={"a": ("x",), "b_": ("b",), "c_d": ("p", "r")}, extra_in="field", extra_out="field"),
    "saturator": dict(model="MS", recipe="[name_mapping(MS, extra_in=saturate, extra_out=extract, skip=['sat'])]", layout={"a": ("a",), "b_": ("b",), "c_d": ("c_d",)},
                      extra_in="saturator", extra_out="extractor"),
    "omit_all": dict(model="MA", recipe="[name_mapping(MA, omit_default=True)]", layout={"a": ("a",), "b_": ("b",), "c_d": ("c_d",)}, omit=["b_", "c_d"]),
    "omit_one": dict(model="MA", recipe="[name_mapping(MA, omit_default='b_')]", layout={"a": ("a",), "b_": ("b",), "c_d": ("c_d",)}, omit=["b_"]),
    "omit_nested": dict(model="MA", recipe="[name_mapping(MA, map={'b_': ('p', 'q'), 'c_d': ('p', 'r')}, omit_default=True)]",
                        layout={"a": ("a",), "b_": ("p", "q"), "c_d": ("p", "r")}, omit=["b_", "c_d"]),
    "omit_stub": dict(model="MD", recipe="[name_mapping(MD, omit_default=True)]", layout={"a": ("a",), "b_": ("b",), "c_d": ("c_d",)}, omit=["b_", "c_d"]),
    "as_list": dict(model="ML", recipe="[name_mapping(ML, as_list=True)]", layout={"a": (0,), "b_": (1,), "c_d": (2,)}),
    "as_list_forbid": dict(model="ML", recipe="[name_mapping(ML, as_list=True, extra_in=ExtraForbid())]", layout={"a": (0,), "b_": (1,), "c_d": (2,)}, extra_in="forbid"),
    "as_list_map": dict(model="ML", recipe="[name_mapping(ML, as_list=True, map={'a': 2, 'c_d': 0})]", layout={"a": (2,), "b_": (1,), "c_d": (0,)}),
    "list_gaps": dict(model="ML", recipe="[name_mapping(ML, map={'a': 2, 'b_': 0, 'c_d': 4})]", layout={"a": (2,), "b_": (0,), "c_d": (4,)}),
    "list_in_dict": dict(model="ML", recipe="[name_mapping(ML, map={'a': ('p', 0), 'b_': ('p', 1), 'c_d': 'c'})]", layout={"a": ("p", 0), "b_": ("p", 1), "c_d": ("c",)}),
    "req_two_crowns": dict(model="ML", recipe="[name_mapping(ML, map={'a': ('p', 'q'), 'b_': ('r', 's'), 'c_d': 'c'})]",
                           layout={"a": ("p", "q"), "b_": ("r", "s"), "c_d": ("c",)}, always_nodes=True),
    "req_three_levels": dict(model="ML", recipe="[name_mapping(ML, map={'a': ('p', 'q', 'z'), 'b_': ('p', 'w'), 'c_d': ('r', 's')}, extra_in=ExtraForbid())]",
                             layout={"a": ("p", "q", "z"), "b_": ("p", "w"), "c_d": ("r", "s")}, extra_in="forbid", always_nodes=True),
    "dict_in_list": dict(model="ML", recipe="[name_mapping(ML, map={'a': (0, 'k'), 'b_': (0, 'm'), 'c_d': 1})]", layout={"a": (0, "k"), "b_": (0, "m"), "c_d": (1,)}),
}
for _m in MEMBERS.values():
    _m.setdefault("extra_in", "skip")
    _m.setdefault("extra_out", "skip")
    _m.setdefault("omit", [])

SETUP = '''
import dataclasses, collections.abc
from typing import Any
from adaptix import (Retort, name_mapping, NameStyle, ExtraForbid, ExtraSkip, ExtraKwargs, ProviderNotFoundError)
from adaptix.load_error import ExtraFieldsLoadError, ExtraItemsLoadError, NoRequiredFieldsLoadError, NoRequiredItemsLoadError

DB, DC = Stub(91), Stub(92)
@dataclasses.dataclass
class MD:
    a: Stub
    b_: Stub = DB
    c_d: Stub = DC
@dataclasses.dataclass
class MA:
    a: Any
    b_: Any = 91
    c_d: Any = 92
@dataclasses.dataclass
class ML:
    a: Stub
    b_: Stub
    c_d: Stub
@dataclasses.dataclass
class MR:
    a: Stub
    b_: Stub = DB
    c_d: Stub = DC
    rest: Any = None
class MK:
    def __init__(self, a: Stub, b_: Stub = DB, c_d: Stub = DC, **kwargs):
        self.a, self.b_, self.c_d, self.kw = a, b_, c_d, kwargs
    def __eq__(self, o): return type(o) is MK and (o.a, o.b_, o.c_d, o.kw) == (self.a, self.b_, self.c_d, self.kw)
@dataclasses.dataclass
class MS:
    a: Stub
    b_: Stub = DB
    c_d: Stub = DC
    sat: Any = dataclasses.field(default=None, init=False)
def saturate(obj, extra): obj.sat = dict(extra)
def extract(obj): return obj.sat or {}
MODELS = {"MD": MD, "MA": MA, "ML": ML, "MR": MR, "MK": MK, "MS": MS}
FIELDS = ("a", "b_", "c_d")
DEFAULTS = {"b_": DB, "c_d": DC}
def child_load(model, d):
    return d if model == "MA" else stub_loader(d)
def child_dump(model, v):
    return v if model == "MA" else stub_dumper(v)
def default_of(model, f):
    return ({"b_": 91, "c_d": 92} if model == "MA" else DEFAULTS)[f]

def required(model, f):
    return f == "a" or model == "ML"

# ------------------------------------------------------------ layout tree
def build_tree(layout):
    """nested {"kind": "dict"|"list", "ch": {key: subtree | ("leaf", field)}}"""
    root = {"kind": None, "ch": {}}
    for f in FIELDS:
        path = layout.get(f)
        if path is None: continue
        node = root
        for i, key in enumerate(path):
            kind = "list" if isinstance(key, int) else "dict"
            node["kind"] = node["kind"] or kind
            if i == len(path) - 1:
                node["ch"][key] = ("leaf", f)
            else:
                node = node["ch"].setdefault(key, {"kind": None, "ch": {}})
    if root["kind"] is None: root["kind"] = "dict"
    return root

def has_required(model, tree):
    for ch in tree["ch"].values():
        if isinstance(ch, tuple):
            if required(model, ch[1]): return True
        elif has_required(model, ch): return True
    return False

class Bad(Exception):
    def __init__(self, reason, fields=None): self.reason, self.fields = reason, fields

# ------------------------------------------------------------ reference loader (documented rules)
def ref_load(member, model, tree, data, strict, problems, out, extras, top=True, trail=()):
    """fills out[field] = loaded value; problems: list of (reason, detail); extras: unknown keys (nested like the input)"""
    if tree["kind"] == "dict":
        if not isinstance(data, collections.abc.Mapping):
            problems.append(("type", None, trail, data)); return
        for key, ch in tree["ch"].items():
            if key not in data:
                if isinstance(ch, tuple):
                    if required(model, ch[1]): problems.append(("missing", key, trail, data))
                else: problems.append(("missing", key, trail, data))      # a nested node is always required (implemented rule; the docs are silent)
                continue
            if isinstance(ch, tuple):
                r = run(child_load, model, data[key])
                if r[0]: out[ch[1]] = r[1]
                else: problems.append(("child", ch[1], trail + (key,), data[key]))
            else:
                sub = {}
                ref_load(member, model, ch, data[key], strict, problems, out, sub, False, trail + (key,))
                extras[key] = sub
        unknown = [k for k in data if k not in tree["ch"]]
        if unknown and member["extra_in"] == "forbid":
            problems.append(("extra", frozenset(unknown), trail, data))
        for k in unknown: extras[k] = data[k]
    else:
        if strict and (isinstance(data, collections.abc.Mapping) or type(data) is str):
            problems.append(("type", None, trail, data)); return
        if not isinstance(data, collections.abc.Sequence):        # lax: a str is a sequence of characters
            problems.append(("type", None, trail, data)); return
        need = max(tree["ch"]) + 1
        if len(data) < need:
            problems.append(("missing_items", need, trail, data))
        if len(data) > need and member["extra_in"] == "forbid":
            problems.append(("extra_items", need, trail, data))
        for key, ch in tree["ch"].items():
            if key >= len(data): continue
            if isinstance(ch, tuple):
                r = run(child_load, model, data[key])
                if r[0]: out[ch[1]] = r[1]
                else: problems.append(("child", ch[1], trail + (key,), data[key]))
            else:
                ref_load(member, model, ch, data[key], strict, problems, out, {}, False, trail + (key,))

def prune(x):
    """nested extras without empty sub-dicts (the docs only fix which unknown keys are delivered and under which names)"""
    if isinstance(x, dict):
        r = {k: prune(v) for k, v in x.items()}
        return {k: v for k, v in r.items() if not (isinstance(v, dict) and not v)}
    return x

def expected_object(member, model, out, extras):
    M = MODELS[model]
    kw = {f: out[f] for f in FIELDS if f in out}
    if member["extra_in"] == "kwargs":
        return M(**kw, **extras)
    obj = M(**kw)
    if member["extra_in"] == "field": obj.rest = extras
    if member["extra_in"] == "saturator": obj.sat = dict(extras)
    return obj

def same_obj(member, got, exp):
    if type(got) is not type(exp): return False
    for f in FIELDS:
        if getattr(got, f) != getattr(exp, f): return False
    if member["extra_in"] == "kwargs": return got.kw == exp.kw
    if member["extra_in"] == "field": return isinstance(got.rest, collections.abc.Mapping) and prune(dict(got.rest)) == prune(exp.rest)
    if member["extra_in"] == "saturator": return prune(got.sat) == prune(exp.sat)
    return True

def extra_sets(e):
    return sorted(sorted(x.fields) for _, x in leaves(e) if isinstance(x, ExtraFieldsLoadError))

def c03_load(member, model, tree, loaders, mk_data, user_bug=False):
    for strict in (True, False):
        data = mk_data()
        problems, out, extras = [], {}, {}
        ref_load(member, model, tree, data, strict, problems, out, extras)
        for dt in DT_MODES:
            o = outcome(loaders[(strict, dt)], mk_data())
            if o[0] == "other_exc":
                if user_bug: continue
                return False
            if problems:
                if o[0] != "load_error": return False
                exp_sets = sorted(sorted(p[1]) for p in problems if p[0] == "extra")
                if exp_sets and all(p[0] == "extra" for p in problems):
                    got = extra_sets(o[2])
                    if dt == DebugTrail.ALL:
                        if got != exp_sets: return False          # rejected with exactly the set of unknown keys
                    elif len(got) != 1 or got[0] not in exp_sets: return False
                if all(p[0] == "missing" for p in problems):
                    # a field is taken from exactly its path: when only required keys are absent, the report names exactly those keys, node by node
                    mk = sorted(sorted(v) for v in missing_keys(problems).values())
                    got = sorted(sorted(e.fields) for t, e in leaves(o[2]) if type(e).__name__ == "NoRequiredFieldsLoadError")
                    if dt == DebugTrail.ALL:
                        if got != mk: return False
                    elif len(got) != 1 or got[0] not in mk: return False
            else:
                if o[0] != "ok": return False
                if not same_obj(member, o[2], expected_object(member, model, out, prune(extras) if member["extra_in"] != "kwargs" else extras)):
                    return False
    return True

REASON_CLASS = {"type": ("TypeLoadError", "ExcludedTypeLoadError"), "missing": ("NoRequiredFieldsLoadError",), "extra": ("ExtraFieldsLoadError",),
                "missing_items": ("NoRequiredItemsLoadError",), "extra_items": ("ExtraItemsLoadError",), "child": ("TypeLoadError",)}

def expected_errors(problems):
    """[(trail incl. the child's own relative trail, allowed classes, offending input)] - one per node for missing keys"""
    out, seen = [], set()
    for reason, detail, trail, inp in problems:
        if reason == "missing":
            if ("missing", trail) in seen: continue
            seen.add(("missing", trail))
        rel = stub_rel_trail(inp) if reason == "child" and type(inp) is int else ()
        out.append((trail + rel, REASON_CLASS[reason], inp, rel))
    return out

def missing_keys(problems):
    """trail of a node -> the set of its required keys that are absent (what NoRequiredFieldsLoadError.fields must name)"""
    out = {}
    for reason, detail, trail, inp in problems:
        if reason == "missing": out.setdefault(trail, set()).add(detail)
    return out

def err_matches(t, e, exp, mk=None):
    if mk is not None and type(e).__name__ == "NoRequiredFieldsLoadError" and t in mk and set(e.fields) != mk[t]: return False
    return any(t == et and type(e).__name__ in ecls and (getattr(e, "input_value", None) is einp or getattr(e, "input_value", None) == einp)
               for et, ecls, einp, _ in exp)

def c05_model(member, model, tree, loaders, mk_data):
    """ALL: every independent problem exactly once with its exact trail; FIRST: exactly one of them, full trail; DISABLE: no
    trail from the model (only what the child attached itself)"""
    for strict in (True, False):
        problems, out, extras = [], {}, {}
        ref_load(member, model, tree, mk_data(), strict, problems, out, extras)
        if not problems: continue
        exp = expected_errors(problems)
        mkeys = missing_keys(problems)
        o = outcome(loaders[(strict, DebugTrail.ALL)], mk_data())
        if o[0] != "load_error": return False
        ls = leaves(o[2])
        if len(ls) != len(exp): return False
        for t, e in ls:
            if not err_matches(t, e, exp, mkeys): return False             # incl.: a missing-keys error names exactly the absent required keys of its node
        for et, ecls, einp, _ in exp:
            if sum(1 for t, e in ls if t == et and type(e).__name__ in ecls) != 1: return False
        o = outcome(loaders[(strict, DebugTrail.FIRST)], mk_data())
        if o[0] != "load_error": return False
        ls = leaves(o[2])
        if len(ls) != 1 or not err_matches(ls[0][0], ls[0][1], exp, mkeys): return False
        o = outcome(loaders[(strict, DebugTrail.DISABLE)], mk_data())
        if o[0] != "load_error": return False
        ls = leaves(o[2])
        if len(ls) != 1: return False
        if type(ls[0][1]).__name__ == "NoRequiredFieldsLoadError" and set(ls[0][1].fields) not in list(mkeys.values()): return False
        if not any(ls[0][0] == rel and type(ls[0][1]).__name__ in ecls for et, ecls, einp, rel in exp): return False
    return True

def contains_bug(x):
    """does the built datum contain a stub code that makes the user supplied child raise a non-LoadError?"""
    if isinstance(x, dict): return any(contains_bug(v) for v in x.values())
    if isinstance(x, (list, tuple)): return any(contains_bug(v) for v in x)
    return type(x) is int and x == -2

def c04_model(member, model, tree, loaders, mk_data, bug):
    bug = contains_bug(mk_data())
    for strict in (True, False):
        for dt in DT_MODES:
            o = outcome(loaders[(strict, dt)], mk_data())
            if o[0] == "other_exc" and not bug: return False
            if o[0] == "load_error" and not only_load_errors(o[2]): return False
    return True

def c06_model(member, model, tree, loaders, mk_data, bug):
    bug = contains_bug(mk_data())
    for strict in (True, False):
        outs = [outcome(loaders[(strict, dt)], mk_data()) for dt in DT_MODES]
        if bug:
            if any(o[0] == "ok" for o in outs) and not all(o[0] == "ok" for o in outs): return False
            continue
        if any(o[0] == "other_exc" for o in outs): continue
        if len({o[0] for o in outs}) != 1: return False
        if outs[0][0] == "ok":
            exp = outs[2][2]
            for o in outs[:2]:
                if not same_obj(member, o[2], exp): return False
        else:
            all_sigs = [leaf_sig(e) for _, e in leaves(outs[2][2])]
            for o in outs[:2]:
                ls = leaves(o[2])
                if len(ls) != 1 or leaf_sig(ls[0][1]) not in all_sigs: return False
    return True

def c20_model(member, model, tree, loaders, mk_data):
    for strict in (True, False):
        for dt in DT_MODES:
            data = mk_data(); snap = mk_data()          # an independently built equal copy serves as the deep snapshot
            f = loaders[(strict, dt)]
            o1 = outcome(f, data)
            if not same(data, snap): return False
            o2 = outcome(f, data)
            if not same(data, snap): return False
            if o1[0] != o2[0]: return False
            if o1[0] == "ok":
                if not same_obj(member, o1[2], o2[2]): return False
                if o1[2] is o2[2]: return False
                i1, i2, ia = mutable_ids(o1[2]), mutable_ids(o2[2]), mutable_ids(data)
                if (i1 & i2) or (i1 & ia) or (i2 & ia): return False
    return True

def c20_dump(member, model, tree, dumpers, mk):
    for dt in DT_MODES:
        obj = mk(); snap = mk()                        # independently built equal copy = deep snapshot
        r1 = run(dumpers[dt], obj)
        if obj != snap: return dbg("dump: object changed (1)")
        r2 = run(dumpers[dt], obj)
        if obj != snap or r1[0] != r2[0]: return dbg("dump: object changed (2)")
        if r1[0]:
            if r1[1] != r2[1]: return dbg("dump: results differ")
            i1, i2, ia = mutable_ids(r1[1]), mutable_ids(r2[1]), mutable_ids(obj)
            if (i1 & i2) or (i1 & ia) or (i2 & ia): return dbg("dump: shared container %r %r %r" % (i1, i2, ia))
    return True

# ------------------------------------------------------------ reference dumper
def ref_dump(member, model, tree, obj):
    def place(root, path, value):
        node = root
        for i, key in enumerate(path):
            last = i == len(path) - 1
            if isinstance(key, int):
                while len(node) <= key: node.append(None)            # list gaps are None placeholders
                if last: node[key] = value
                else:
                    if node[key] is None: node[key] = [] if isinstance(path[i + 1], int) else {}
                    node = node[key]
            else:
                if last: node[key] = value
                else:
                    if key not in node: node[key] = [] if isinstance(path[i + 1], int) else {}
                    node = node[key]
    root = [] if tree["kind"] == "list" else {}
    for f in FIELDS:
        path = member["layout"].get(f)
        if path is None: continue
        v = getattr(obj, f)
        if f in member["omit"] and f in DEFAULTS and v == default_of(model, f):
            continue
        place(root, path, child_dump(model, v))
    if member["extra_out"] == "field" and isinstance(root, dict): root.update(obj.rest or {})
    if member["extra_out"] == "extractor" and isinstance(root, dict): root.update(extract(obj))
    return root

def with_empty_nodes(tree, data):
    """the reference output plus empty containers for nested nodes whose fields were all omitted (the loader requires the node)"""
    if tree["kind"] != "dict" or not isinstance(data, dict): return data
    out = dict(data)
    for key, ch in tree["ch"].items():
        if not isinstance(ch, tuple):
            if key not in out: out[key] = {} if ch["kind"] == "dict" else []
            out[key] = with_empty_nodes(ch, out[key])
    return out

def prune_empty_nodes(x):
    if isinstance(x, dict):
        r = {k: prune_empty_nodes(v) for k, v in x.items()}
        return {k: v for k, v in r.items() if not (isinstance(v, (dict,)) and not v)}
    if isinstance(x, list): return [prune_empty_nodes(v) for v in x]
    return x

def c03_dump(member, model, tree, dumpers, obj):
    exp = ref_dump(member, model, tree, obj)
    for dt in DT_MODES:
        r = run(dumpers[dt], obj)
        if not r[0]: return False
        if r[1] != with_empty_nodes(tree, exp): return False        # a nested node is written even when every field in it is omitted
        if type(r[1]) is not type(exp): return False
    return True

# ------------------------------------------------------------ symbolic input construction
def first_nested(tree):
    for k, ch in tree["ch"].items():
        if not isinstance(ch, tuple): return k
    return None

def build_node(tree, pres, vals, xn, nk, depth, state):
    """data for one crown node from presence bits / codes; xn adds an unknown key to the first nested dict node, nk replaces it
    by a wrong kind"""
    if tree["kind"] == "dict":
        d = {}
        for key, ch in tree["ch"].items():
            if isinstance(ch, tuple):
                if pres[ch[1]]: d[key] = vals[ch[1]]
            else:
                leafs = leaf_fields(ch)
                is_first = not state.get("done")
                if is_first: state["done"] = True
                if any(pres[f] for f in leafs) or (is_first and (xn or nk)) or state.get("always_nodes"):
                    sub = build_node(ch, pres, vals, False, 0, depth + 1, state)
                    if is_first:
                        if nk == 1: sub = None
                        elif nk == 2: sub = [sub] if isinstance(sub, dict) else {"0": sub}
                        elif nk == 3: sub = "str"
                        elif xn and isinstance(sub, dict): sub["nx"] = 5
                    d[key] = sub
        return d
    need = max(tree["ch"]) + 1
    items = [None] * need
    for key, ch in tree["ch"].items():
        if isinstance(ch, tuple): items[key] = vals[ch[1]]
        else:
            is_first = not state.get("done")
            if is_first: state["done"] = True
            sub = build_node(ch, pres, vals, False, 0, depth + 1, state)
            if is_first:
                if nk == 1: sub = None
                elif nk == 2: sub = [sub] if isinstance(sub, dict) else {"0": sub}
                elif nk == 3: sub = "str"
                elif xn and isinstance(sub, dict): sub["nx"] = 5
            items[key] = sub
    return items

def leaf_fields(tree):
    out = []
    for ch in tree["ch"].values():
        if isinstance(ch, tuple): out.append(ch[1])
        else: out.extend(leaf_fields(ch))
    return out

def build_data(member, tree, p0, p1, p2, v0, v1, v2, x0, x1, xn, nk, rk, trunc):
    pres = {"a": p0, "b_": p1, "c_d": p2}
    vals = {"a": v0, "b_": v1, "c_d": v2}
    data = build_node(tree, pres, vals, xn, nk, 0, {"always_nodes": member.get("always_nodes", False)})
    if tree["kind"] == "dict":
        if x0: data["zz"] = 1
        if x1:
            # an unknown key that looks like a field: the original name of a renamed / skipped / trimmed field
            k = "a" if "a" not in tree["ch"] else ("b_" if "b_" not in tree["ch"] else ("c_d" if "c_d" not in tree["ch"] else "yy"))
            if member["extra_in"] == "kwargs": k = "yy"      # documented: an unknown key colliding with a field name is a TypeError
            data[k] = 3
        if rk == 1: return None
        if rk == 2: return list(data.values())
        if rk == 3: return "str"
        if rk == 4: return collections.OrderedDict(data)
        return data
    # list root: all items present, optionally truncated / extended
    if trunc: data = data[:max(0, len(data) - trunc)]
    if x0: data = data + [7]
    if rk == 1: return None
    if rk == 2: return {i: v for i, v in enumerate(data)}
    if rk == 3: return "s" * len(data)
    if rk == 4: return tuple(data)
    return data
'''


def member_module(prop: str, name: str, extra_setup: str = "") -> Module:
    mem = MEMBERS[name]
    m = Module(f"{prop.lower()}_model_{name}").pre(SETUP)
    m.pre(f'''
MEMBER = {mem!r}
MODEL = MEMBER["model"]
M = MODELS[MODEL]
TREE = build_tree(MEMBER["layout"])
BUILD_ERRORS = []
LOADERS, DUMPERS = {{}}, {{}}
for _s in (True, False):
    for _dt in DT_MODES:
        try:
            _r = Retort(recipe={mem["recipe"]} + STUB_RECIPE, strict_coercion=_s, debug_trail=_dt)
            LOADERS[(_s, _dt)] = _r.get_loader(M)
            if _s and MODEL != "MK": DUMPERS[_dt] = _r.get_dumper(M)
        except Exception as _e:
            BUILD_ERRORS.append((_s, _dt, repr(_e)[:300]))

def mk_obj(v0, v1, v2, e):
    obj = M(v0, v1, v2) if MODEL == "MA" else M(Stub(v0), Stub(v1), Stub(v2))
    if MODEL == "MR": obj.rest = {{"ex": e}} if e >= 0 else {{}}
    if MODEL == "MS": obj.sat = {{"ex": e}} if e >= 0 else {{}}
    return obj
''')
    if extra_setup:
        m.pre(extra_setup)
    return m


LOAD_PARAMS = "p0: bool, p1: bool, p2: bool, v0: int, v1: int, v2: int, x0: bool, x1: bool, xn: bool, nk: int, rk: int, trunc: int"
LOAD_ARGS = "p0, p1, p2, v0, v1, v2, x0, x1, xn, nk, rk, trunc"
LOAD_PRE = ["0 <= nk <= 3", "0 <= rk <= 4", "0 <= trunc <= 3", "v0 >= -4 and v1 >= -4 and v2 >= -4"]


def has_nested(name):
    return any(p is not None and len(p) > 1 for p in MEMBERS[name]["layout"].values())


def is_list_root(name):
    return any(p is not None and isinstance(p[0], int) for p in MEMBERS[name]["layout"].values())


def load_pre(name, allow_bug=False):
    pre = list(LOAD_PRE)
    if not allow_bug:
        pre.append("v0 != -2 and v1 != -2 and v2 != -2")
    if not has_nested(name):
        pre.append("nk == 0 and not xn")
    if is_list_root(name):
        pre.append("p0 and p1 and p2 and not x1")
    else:
        pre.append("trunc == 0")
    return pre


def load_slices(name, allow_bug=False):
    """independent dimensions are split into separate obligations, never multiplied (DESIGN.md 3.1):
    fields (presence x child outcomes) | extras (presence x unknown keys) | kinds (wrong container kinds, truncation)"""
    base = load_pre(name, allow_bug)
    ok_codes = "v0 >= 0 and v1 >= 0 and v2 >= 0"
    if is_list_root(name):
        return {
            "fields": base + ["not x0 and not xn and nk == 0 and rk == 0 and trunc == 0"],
            "kinds": base + [ok_codes, "not xn"],
        }
    return {
        "fields": base + ["not x0 and not x1 and not xn and nk == 0 and rk == 0"],
        "extras": base + [ok_codes, "nk == 0 and rk == 0"],
        "kinds": base + [ok_codes, "not x0 and not x1 and not xn", "p1 and p2"],
    }
