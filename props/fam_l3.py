"""Layer 3 (DESIGN.md 4.5): composition glue end-to-end -- nested types with REAL children against a type-directed reference loader
written from the documented per-type rules.  Shared by C02, C04, C06, C07."""
from vf.gen import Module

SETUP = '''
import typing, collections.abc
from typing import Literal
RS = six_retorts()
TYPES = {
    "L_D_Oi": List[Dict[str, Optional[int]]],
    "D_L_T": Dict[str, List[Tuple[int, str]]],
    "O_L_U": Optional[List[Union[int, str]]],
    "T_Ob_Li": Tuple[Optional[bool], List[int]],
    "D_i_Li": Dict[int, List[int]],
    "L_Lit": List[Literal["a", 1]],
    "M_s_Si": typing.Mapping[str, typing.Sequence[int]],
    "L_L_b": List[List[bool]],
    "D_s_T1": Dict[str, Tuple[str]],
    "S_O_s": typing.Sequence[Optional[str]],
    # look-alike literals requested from ONE retort (bool vs int cases)
    "T_L1_LT": Tuple[Literal[1], Literal[True]],
    "T_LF_L0": Tuple[Literal[False, "a"], Literal[0, "a"]],
}
LD = {(n, k): r.get_loader(t) for n, t in TYPES.items() for k, r in RS.items()}

class Reject(Exception):
    pass

def ref(tp, d, strict):
    """documented rules, type-directed (docs/loading-and-dumping/specific-types-behavior.rst); raises Reject"""
    origin = typing.get_origin(tp)
    args = typing.get_args(tp)
    if tp is int:
        if strict:
            if type(d) is not int: raise Reject
            return d
        try: return int(d)
        except Exception: raise Reject
    if tp is str:
        if strict:
            if type(d) is not str: raise Reject
            return d
        return str(d)
    if tp is bool:
        if strict:
            if type(d) is not bool: raise Reject
            return d
        return bool(d)
    if tp is type(None) or tp is None:
        if d is not None: raise Reject
        return None
    if origin is Literal:
        for a in args:
            if (type(a) is type(d) or not strict or not (isinstance(a, (bool, int)) and isinstance(d, (bool, int)))) and a == d and type(d) in (int, str, bool):
                return d
        raise Reject
    if origin is typing.Union:
        errs = 0
        if strict or all(a in (int, type(None)) or typing.get_origin(a) is not None for a in args):
            for a in args:
                try: return ("ANYOF", [ref(x, d, strict) for x in args if _accepts(x, d, strict)])
                except Reject: pass
        return ("ANYOF", [ref(x, d, strict) for x in args if _accepts(x, d, strict)])
    if origin in (list, collections.abc.Sequence):
        if strict and (isinstance(d, collections.abc.Mapping) or type(d) is str): raise Reject
        try: items = list(d)
        except TypeError: raise Reject
        out = [ref(args[0], x, strict) for x in items]
        return out if origin is list else tuple(out)
    if origin is tuple:
        if strict and (isinstance(d, collections.abc.Mapping) or type(d) is str): raise Reject
        try: items = list(d)
        except TypeError: raise Reject
        if len(items) != len(args): raise Reject
        return tuple(ref(a, x, strict) for a, x in zip(args, items))
    if origin in (dict, collections.abc.Mapping):
        if not isinstance(d, collections.abc.Mapping): raise Reject
        return {ref(args[0], k, strict): ref(args[1], v, strict) for k, v in d.items()}
    raise KeyError(tp)

def _accepts(tp, d, strict):
    try:
        ref(tp, d, strict); return True
    except Reject:
        return False

def matches(got, exp):
    """exp may contain ("ANYOF", [...]) nodes: the union rule allows the result of any accepting case"""
    if isinstance(exp, tuple) and len(exp) == 2 and exp[0] == "ANYOF":
        if not exp[1]: return False
        return any(matches(got, e) for e in exp[1])
    if type(got) is not type(exp): return False
    if isinstance(exp, (list, tuple)):
        return len(got) == len(exp) and all(matches(g, e) for g, e in zip(got, exp))
    if isinstance(exp, dict):
        return len(got) == len(exp) and all(k in got and matches(got[k], v) for k, v in exp.items())
    return got == exp

def has_empty_anyof(exp):
    if isinstance(exp, tuple) and len(exp) == 2 and exp[0] == "ANYOF":
        return not exp[1] or all(has_empty_anyof(e) for e in exp[1])
    if isinstance(exp, (list, tuple)): return any(has_empty_anyof(e) for e in exp)
    if isinstance(exp, dict): return any(has_empty_anyof(v) for v in exp.values())
    return False

def ref_outcome(name, d, strict):
    try:
        exp = ref(TYPES[name], d, strict)
    except Reject:
        return ("err", None)
    if has_empty_anyof(exp): return ("err", None)
    return ("ok", exp)

# ---- type-directed symbolic data: a valid skeleton per type with one symbolic atom at each leaf and kind selectors for two nodes
def skel(name, a, b, k1, k2):
    """k1: kind of the outer node, k2: kind of the inner node (0 = as the type wants, 1 None, 2 str, 3 list/dict swapped, 4 empty)"""
    def inner_list(x):
        return [x] if k2 == 0 else (None if k2 == 1 else ("s" if k2 == 2 else ({"0": x} if k2 == 3 else [])))
    def inner_dict(x):
        return {"k": x} if k2 == 0 else (None if k2 == 1 else ("s" if k2 == 2 else ([x] if k2 == 3 else {})))
    def outer(x, want):
        if k1 == 0: return x
        if k1 == 1: return None
        if k1 == 2: return "s"
        if k1 == 3: return {"k": x} if want == "list" else [x]
        return [] if want == "list" else {}
    if name == "L_D_Oi": return outer([inner_dict(a), {"k": b, "m": a}], "list")
    if name == "D_L_T": return outer({"k": inner_list((a, b)), "m": []}, "dict")
    if name == "O_L_U": return outer(inner_list(a) if k2 != 1 else [a, b], "list")
    if name == "T_Ob_Li": return outer((a, inner_list(b)), "list")
    if name == "D_i_Li": return outer({1: inner_list(a), 2: [b]}, "dict")
    if name == "L_Lit": return outer([a, b] if k2 == 0 else inner_list(a), "list")
    if name == "M_s_Si": return outer({"k": inner_list(a), "m": (b, b)}, "dict")
    if name == "L_L_b": return outer([inner_list(a), [b]], "list")
    if name == "D_s_T1": return outer({"k": inner_list(a) if k2 else (a,)}, "dict")
    if name == "S_O_s": return outer((a, b) if k2 == 0 else inner_list(a), "list")
    if name in ("T_L1_LT", "T_LF_L0"): return outer((a, b) if k2 == 0 else inner_list(a), "list")
    raise KeyError(name)

def l3_c02(name, a, b, k1, k2):
    for strict in (True, False):
        exp = ref_outcome(name, skel(name, a, b, k1, k2), strict)
        for dt in DT_MODES:
            o = outcome(LD[(name, (strict, dt))], skel(name, a, b, k1, k2))
            if o[0] == "other_exc": continue
            if exp[0] == "ok":
                if o[0] != "ok" or not matches(o[2], exp[1]): return False
            elif o[0] == "ok": return False
    return True

def l3_c04(name, a, b, k1, k2):
    for key in RS:
        o = outcome(LD[(name, key)], skel(name, a, b, k1, k2))
        if o[0] == "other_exc": return False
        if o[0] == "load_error" and not only_load_errors(o[2]): return False
    return True

def l3_c06(name, a, b, k1, k2):
    for strict in (True, False):
        outs = [outcome(LD[(name, (strict, dt))], skel(name, a, b, k1, k2)) for dt in DT_MODES]
        if any(o[0] == "other_exc" for o in outs): continue
        if len({o[0] for o in outs}) != 1: return False
        if outs[0][0] == "ok" and not (same(outs[0][2], outs[1][2]) and same(outs[0][2], outs[2][2])): return False
    return True

def l3_c07(name, a, b, k1, k2):
    exp = ref_outcome(name, skel(name, a, b, k1, k2), True)
    for dt in DT_MODES:
        s = outcome(LD[(name, (True, dt))], skel(name, a, b, k1, k2))
        l = outcome(LD[(name, (False, dt))], skel(name, a, b, k1, k2))
        if s[0] == "ok":
            if l[0] != "ok": return False
            if name not in ("O_L_U",) and not same(s[2], l[2]): return False        # int|str overlaps in lax mode
            if exp[0] != "ok": return False        # strict never accepts data outside the documented strict origins (no bool for an int, no str for a list, ...)
    return True
'''

NAMES = ["L_D_Oi", "D_L_T", "O_L_U", "T_Ob_Li", "D_i_Li", "L_Lit", "M_s_Si", "L_L_b", "D_s_T1", "S_O_s", "T_L1_LT", "T_LF_L0"]


def l3_module(prop: str, tier: str) -> Module:
    quick = tier == "quick"
    tmo = 180 if quick else 600
    m = Module(f"{prop.lower()}_l3").pre(SETUP)
    for name in NAMES:
        m.ob(f"l3_{name}", "a: Union[None, bool, int, str], b: Union[None, bool, int, str], k1: int, k2: int",
             f"return l3_{prop.lower()}({name!r}, a, b, k1, k2)",
             pre=["0 <= k1 <= 4", "0 <= k2 <= 4", "not isinstance(a, str) or a in ('', 'a', '1')", "not isinstance(b, str) or b in ('', 'a', '1')",
                  "not isinstance(a, int) or -1 <= a <= 2", "not isinstance(b, int) or -1 <= b <= 2"],
             timeout=tmo, family="L3 glue: nested real types vs a type-directed reference of the documented rules",
             bounds="two leaf atoms None|bool|int in [-1,2]|str in ('', 'a', '1') symbolic; outer and inner container node each of 5 kinds (right, None, str, swapped, empty); 6 modes")
    return m
