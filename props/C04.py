"""C04 Invalid input raises LoadError and nothing else."""
from vf.gen import Plan
from props.fam_l1 import l1_loader_module
from props.fam_l2 import l2_module


def build(tier, seed):
    mods = [l1_loader_module("C04", tier), l2_module("C04", tier)]
    return Plan("C04", mods,
                assumptions=["CrossHair models of builtins (floats as reals: numeric boundary regions are owned by the E2 kernels)"],
                bounds={}, outside=["strings longer than the bound"])
