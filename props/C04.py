"""C04 Invalid input raises LoadError and nothing else."""
from vf.gen import Plan, Module, Ob
from props.fam_model import MEMBERS, member_module, LOAD_PARAMS, LOAD_ARGS, load_slices
from props.fam_l1 import l1_loader_module
from props.fam_l3 import l3_module
from props.fam_l2 import l2_module

KEXC_SETUP = '''
import adaptix._internal.morphing.concrete_provider as cp
import adaptix.load_error as le
from adaptix import Retort
from decimal import Decimal
from fractions import Fraction
LE_NAMES = {n for n in dir(le) if isinstance(getattr(le, n), type) and issubclass(getattr(le, n), le.LoadError)}
def target(name):
    if name == "bytes": return Retort().get_loader(bytes)
    if name == "timedelta":
        from datetime import timedelta
        return Retort().get_loader(timedelta)
    return getattr(cp, name)
def kexc(name):
    from vf.smt import kexc as K
    bad = K.selftest()
    if bad:
        return {"status": "UNKNOWN", "detail": "stub self-test failed: %r" % (bad[:3],)}
    try:
        r = K.check_loader(target(name), LE_NAMES)
    except K.CannotEncode as e:
        return {"status": "UNKNOWN", "detail": "cannot encode: %s" % (e,)}
    rec = {"solver_queries": r["queries"], "solver_s": round(r["solver_s"], 3), "evaluations": r["edges"],
           "functions_encoded": ["morphing/concrete_provider.py:" + name], "backend": "z3 (QF_FP / strings / LIA via python API)",
           "note": "exception edges examined: %d; opaque tests treated as nondeterministic: %r" % (r["edges"], r["opaque_tests"])}
    if r["witnesses"]:
        rec.update(status="REFUTED", cexs=[{"datum": repr(w)} for w, e, l, s in r["witnesses"][:5]])
    elif r["unknown"]:
        rec.update(status="UNKNOWN", detail="solver unknown on %r" % (r["unknown"],))
    else:
        rec["status"] = "CONFIRMED"
    return rec
def kexc_replay(name, datum):
    o = outcome(target(name), datum)
    return o[0] != "other_exc"
'''
KEXC_TARGETS = ["int_strict_coercion_loader", "int_lax_coercion_loader", "float_strict_coercion_loader", "float_lax_coercion_loader",
                "str_strict_coercion_loader", "bool_strict_coercion_loader", "decimal_strict_coercion_loader", "decimal_lax_coercion_loader",
                "fraction_strict_coercion_loader", "fraction_lax_coercion_loader", "complex_strict_coercion_loader", "complex_lax_coercion_loader",
                "none_loader", "bytes", "timedelta"]


def kexc_module():
    m = Module("c04_kexc").pre(KEXC_SETUP)
    for t in KEXC_TARGETS:
        m.fns.append(f"def smt_kexc_{t}():\n    return kexc({t!r})\n\ndef chk_kexc_{t}(datum):\n    return kexc_replay({t!r}, datum)\n")
        m.obs.append(Ob(name=f"kexc_{t}", module=m.key, kind="smt", timeout=120, family="E2 K-exc: exception-edge reachability over the loader's AST (z3)",
                        bounds="datum: int (unbounded) | bool | float64 (all bit patterns incl. nan/inf) | str len<=6 | None | Decimal finite/inf/nan/snan | Fraction | complex | bytes | list; "
                               "builtins int/float/Decimal/Fraction/complex/str.encode as contract stubs with exception edges (self-tested)"))
    return m


def build(tier, seed):
    mods = [l1_loader_module("C04", tier), l2_module("C04", tier), kexc_module()]
    mods.append(l3_module("C04", tier))

    model_names = ['plain', 'rename', 'nested', 'nested2', 'forbid_nested', 'kwargs', 'rest_field_rename', 'saturator', 'as_list_forbid', 'list_gaps', 'list_in_dict', 'dict_in_list', 'pairs_map', 'req_two_crowns', 'req_three_levels'] if tier == "quick" else list(MEMBERS)
    for name in model_names:
        mm = member_module("C04", name)
        for sl, pre in load_slices(name, allow_bug=True).items():
            mm.ob(f"model_{sl}_{name}", LOAD_PARAMS, f"return c04_model(MEMBER, MODEL, TREE, LOADERS, lambda: build_data(MEMBER, TREE, {LOAD_ARGS}), (v0 == -2 and p0) or (v1 == -2 and p1) or (v2 == -2 and p2))",
                  pre=pre, timeout=120 if tier == "quick" else 300, family="generated model loaders (stub fields) x name_mapping recipes",
                  bounds="slice " + sl + ": presence bits, symbolic stub codes, unknown keys, wrong node/root kinds, list truncation; 6 modes")

        mods.append(mm)
    mx = Module("c04_extra").pre('''
import re
from adaptix import Retort
RS = six_retorts()
SET_LD = {k: (r.get_loader(Set[Any]), r.get_loader(FrozenSet[object])) for k, r in RS.items()}
ELS = (1, [1], {}, (1,), None, "a")
def set_any(k0, k1):
    data = [ELS[pick(k0, 6)], ELS[pick(k1, 6)]]
    for k, (l1, l2) in SET_LD.items():
        for l in (l1, l2):
            o = outcome(l, list(data))
            if o[0] == "other_exc": return False
    return True
HUGE = 10 ** 5000          # beyond the int -> str conversion limit: cannot be rendered in a trail note
HK_LD = {k: (r.get_loader(Dict[int, int]), r.get_loader(Dict[int, List[int]]), r.get_loader(DefaultDict[int, Optional[int]])) for k, r in RS.items()}
def huge_key(sel, v):
    bad = ["x", [v, "x"], None][pick(sel, 3)]
    for k, ls in HK_LD.items():
        for l in ls:
            for data in ({HUGE: bad}, {1: v, -HUGE: bad, HUGE: bad}):
                o = outcome(l, data)
                if o[0] == "other_exc": return False
    return True
# ---- mappings with non-string keys against every extra policy of a dict-layout model
from adaptix import name_mapping, ExtraSkip, ExtraForbid, ExtraCollect, ExtraKwargs
class NK_Plain:
    def __init__(self, a: int, b: int = 0): self.a, self.b = a, b
class NK_Kw:
    def __init__(self, a: int, b: int = 0, **kw): self.a, self.b, self.kw = a, b, kw
class NK_Rest:
    def __init__(self, a: int, rest: Any, b: int = 0): self.a, self.b, self.rest = a, b, rest
class NK_Sat:
    def __init__(self, a: int, b: int = 0): self.a, self.b = a, b
def _nk_sat(obj, extra): obj.extra = extra
def _nk_ext(obj): return getattr(obj, "extra", {})
NK_CASES = (
    (NK_Plain, [name_mapping(NK_Plain, extra_in=ExtraSkip())]),
    (NK_Plain, [name_mapping(NK_Plain, extra_in=ExtraForbid())]),
    (NK_Kw, [name_mapping(NK_Kw, extra_in=ExtraKwargs())]),
    (NK_Rest, [name_mapping(NK_Rest, extra_in="rest")]),
    (NK_Sat, [name_mapping(NK_Sat, extra_in=_nk_sat, extra_out=_nk_ext)]),
    (NK_Plain, [name_mapping(NK_Plain, map={"b": ("n", "b")}, extra_in=ExtraForbid())]),
)
NK_LD = [{k: r.get_loader(cls) for k, r in six_retorts(rec).items()} for cls, rec in NK_CASES]
NK_KEYS = (5, None, (1,), 1.5, b"x", True, "zz", -1)
def nonstr_keys(case, k0, k1, v, bad, nested):
    if bad: v = "x"
    for k, l in NK_LD[case].items():
        data = {"a": v, NK_KEYS[pick(k0, len(NK_KEYS))]: 2, NK_KEYS[pick(k1, len(NK_KEYS))]: v}
        if nested: data["n"] = {"b": v, NK_KEYS[pick(k0, len(NK_KEYS))]: 1}
        o = outcome(l, data)
        if o[0] == "other_exc": return dbg(("NK other", k, o[1]))
        if o[0] == "load_error" and not only_load_errors(o[2]): return dbg(("NK leaves", k))
    return True
# ---- stdlib numeric-tower data (Decimal / Fraction / complex specials) against every builtin scalar, literal, enum and container loader
import enum as _enum, datetime as _dtm, uuid as _uuid, ipaddress as _ip, pathlib as _pl, io as _io, os as _os2
from decimal import Decimal as _D
from fractions import Fraction as _F
class NT_E(_enum.Enum):
    A = 1
    B = "b"
class NT_F(_enum.Flag):
    X = 1
    Y = 2
class NT_IE(_enum.IntEnum):
    P = 1
NT_POOL = (_D("sNaN"), _D("NaN"), _D("Infinity"), _D("-Infinity"), _D("1e400"), _D("-0"), _D("1.5"), _D("1"), _F(10 ** 5000), _F(1, 3), _F(1),
           complex(nan, 0), complex(0, inf), complex(1, 0), 10 ** 5000, -(10 ** 5000), _D("1e-400"), _D(10 ** 5000))
NT_TYPES = (int, float, str, bool, _D, _F, complex, bytes, bytearray, _dtm.timedelta, _dtm.date, _dtm.time, _dtm.datetime, re.Pattern,
            _uuid.UUID, _ip.IPv4Address, _ip.IPv6Address, _ip.IPv4Network, _ip.IPv6Network, _ip.IPv4Interface, _ip.IPv6Interface,
            _pl.PurePosixPath, _pl.PureWindowsPath, _pl.PurePath, _pl.Path, _io.BytesIO, IO[bytes], ByteString, _os2.PathLike[str], LiteralString,
            Literal[1, "a"], Literal[0, 1, "x"], Literal[1, 2, 3, 4, 5], Literal[NT_E.A, 1], Literal[b"a", 1], NT_E, NT_F, NT_IE, None, Any,
            Optional[int], Union[int, str], Union[float, None, _D], List[int], Set[int], Dict[str, int], Dict[int, str], Tuple[int, str],
            Tuple[float, ...], Deque[_D], DefaultDict[str, List[_F]], FrozenSet[complex], Union[Literal[1], Literal["a"], None])
NT_LD = [{k: r.get_loader(t) for k, r in RS.items()} for t in NT_TYPES]
def numeric_tower(ti, di, kind):
    d = NT_POOL[di]
    kind = pick(kind, 6)
    if kind == 0: data = d
    elif kind == 1: data = [d]
    elif kind == 2: data = {"a": d}
    elif kind == 3: data = {d: 1} if di != 0 else (d,)        # sNaN is unhashable
    elif kind == 4: data = (d, "a")
    else: data = [1, d]
    for k, l in NT_LD[ti].items():
        o = outcome(l, data)
        if o[0] == "other_exc": return dbg(("numeric_tower", ti, di, kind, k, o[1]))
        if o[0] == "load_error" and not only_load_errors(o[2]): return False
    return True
# ---- data that can be subscripted with a str but is no container: class objects with __class_getitem__ (list['x'] is a GenericAlias)
import dataclasses as _dc
@_dc.dataclass
class CO_M:
    x: str
    y: Optional[int] = None
class CO_NT(NamedTuple):
    x: Any
    y: int = 0
class CO_TD(TypedDict):
    x: Any
    y: NotRequired[int]
class _GetItemOnly:
    def __getitem__(self, k):
        if isinstance(k, str): return 1
        raise IndexError(k)                 # (not an endless old-style sequence)
CO_DATA = (list, dict, type, tuple, List, _GetItemOnly(), 5, "s", None)
CO_TYPES = (CO_M, CO_NT, CO_TD, Optional[CO_M], List[CO_NT], Dict[str, CO_TD])
CO_LD = [{k: r.get_loader(t) for k, r in RS.items()} for t in CO_TYPES]
def class_objects(ti, di, kind):
    d = CO_DATA[pick(di, len(CO_DATA))]
    data = [d, [d], {"k": d}][pick(kind, 3)]
    for k, l in CO_LD[pick(ti, len(CO_TYPES))].items():
        o = outcome(l, data)
        if o[0] == "other_exc": return False
        if o[0] == "load_error" and not only_load_errors(o[2]): return False
    return True
PATTERNS = ("a{4294967296}", "(", "a{2,1}", "[", "(?P<x>a)(?P<x>b)", "a" * 3 + "{65536}{65536}", chr(92), "(?z)", "*", "a**")
PAT_LD = {k: r.get_loader(re.Pattern) for k, r in RS.items()}
def pattern_pool(i):
    p = PATTERNS[pick(i, len(PATTERNS))]
    return all(outcome(l, p)[0] != "other_exc" for l in PAT_LD.values())
''')
    ml = Module("c04_literal").pre('''
import enum
from typing import Literal
class E(enum.Enum):
    A = "ea"
    B = 2
LITS = {"small_int": Literal[1, 2, 3], "big_int": Literal[1, 2, 3, 4, 5], "strs": Literal["a", "b"], "mixed_01": Literal[0, 1, "x"],
        "big_bool": Literal[False, True, 2, 3, 4, 5], "bytes": Literal[b"ab", "x"], "enum": Literal[E.A, "x"], "enum_big": Literal[E.A, E.B, 1, 2, 3, 4],
        "bytes_enum": Literal[b"ab", E.A, "x"]}
LRS = six_retorts()
LLD = {(n, k): r.get_loader(t) for n, t in LITS.items() for k, r in LRS.items()}
def shape(kind, d):
    if kind == 0: return d
    if kind == 1: return [d]
    if kind == 2: return {"a": d}
    if kind == 3: return {1}
    if kind == 4: return (d, [d])
    if kind == 5: return bytearray(b"ab")
    return (d,)
def lit_c04(name, kind, d):
    data = shape(kind, d)
    for k in LRS:
        o = outcome(LLD[(name, k)], data)
        if o[0] == "other_exc": return False
        if o[0] == "load_error" and not only_load_errors(o[2]): return False
    return True
''')
    for ln in ["big_int", "big_bool", "bytes", "enum_big", "bytes_enum"]:
        ml.ob(f"literal_{ln}", "kind: int, tag: int, n: int, c0: int, c1: int", f"return lit_c04({ln!r}, kind, sel_atom(tag, n, c0, c1, 0, 'abx12=YQe '))",
              pre=["0 <= kind <= 6", "0 <= tag <= 5", "0 <= n <= 2", "0 <= c0 < 10", "0 <= c1 < 10"], timeout=120 if tier == "quick" else 300,
              family="Literal loaders (set branch, bytes members: values are hashed / base64-decoded, selector-built data)",
              bounds="selector atom (None|bool|small and huge ints|pooled floats|str over 'abx12=YQe ' len<=2|bytes) bare or in 6 container shapes; 6 modes")
    for ln in ["small_int", "strs", "mixed_01", "enum"]:
        ml.ob(f"literal_{ln}", "kind: int, d: Union[None, bool, int, float, str, bytes]", f"return lit_c04({ln!r}, kind, d)",
              pre=["0 <= kind <= 6", "not isinstance(d, (str, bytes)) or len(d) <= 2"], timeout=60 if tier == "quick" else 300,
              family="Literal loaders (tuple and set branch, enum and bytes members) on atoms and unhashable containers",
              bounds="symbolic atom (str/bytes len<=2) bare or in 6 container shapes incl. unhashable ones; 6 modes")
    mods.append(ml)
    mx.ob("set_any_unhashable", "k0: int, k1: int", "return set_any(k0, k1)", pre=["0 <= k0 < 6", "0 <= k1 < 6"], timeout=60,
          family="Set[Any] / FrozenSet[object] with hashable and unhashable elements", bounds="2 elements from (int, list, dict, tuple, None, str); 6 modes")
    for case, cname in enumerate(("skip", "forbid", "kwargs", "extra_target", "saturator", "forbid_nested")):
        mx.ob(f"nonstr_keys_{cname}", "k0: int, k1: int, v: int, bad: bool, nested: bool", f"return nonstr_keys({case}, k0, k1, v, bad, nested)",
              pre=["0 <= k0 < 8", "0 <= k1 < 8"], timeout=120,
              family="mappings with non-string keys x every extra policy of a dict-layout model",
              bounds="model with extra policy " + cname + "; 2 unknown keys from an 8-value pool (int, None, tuple, float, bytes, bool, str, negative int), "
                     "optionally repeated in a nested crown; field value symbolic int or a rejected str; 6 modes")
    mx.nat("numeric_tower", '''
def nat_numeric_tower():
    bad, ev = [], 0
    for ti in range(len(NT_TYPES)):
        for di in range(len(NT_POOL)):
            for kind in range(6):
                ev += 6
                if not numeric_tower(ti, di, kind): bad.append({"ti": str(ti), "di": str(di), "kind": str(kind)})
    return {"status": "REFUTED" if bad else "CONFIRMED", "cexs": bad[:5], "evaluations": ev,
            "note": "labelled native enumeration: the values are pooled stdlib objects (CrossHair replaces the Decimal class; no symbolic dimension)"}

def chk_numeric_tower(ti, di, kind):
    return numeric_tower(ti, di, kind)
''', timeout=120,
           family="stdlib numeric-tower data (Decimal sNaN/NaN/Infinity/huge exponent, huge Fraction, complex nan/inf, +-10**5000) x every builtin loader (labelled enumeration)",
           bounds="53 builtin-supported types (scalars, IP/path/IO types, literals, enums, flags, unions, containers) x 18 pooled values bare or inside "
                  "5 container shapes (list, dict value, dict key, tuple, list tail) x 6 modes; native")
    mx.ob("subscriptable_non_containers", "ti: int, di: int, kind: int", "return class_objects(ti, di, kind)", pre=["0 <= ti < 6", "0 <= di < 9", "0 <= kind < 3"], timeout=120,
          family="model loaders given data that can be subscripted with a str but is no mapping (class objects with __class_getitem__, objects with __getitem__ only)",
          bounds="6 model types (dataclass, NamedTuple, TypedDict, Optional / List / Dict of them) x 9 data (list, dict, type, tuple, typing.List, a __getitem__-only object, int, str, None) "
                 "bare, in a list, in a dict; 6 modes")
    mx.nat("huge_trail_key", '''
def nat_huge_trail_key():
    bad = [{"sel": str(sel), "v": str(v)} for sel in range(3) for v in (0, -1, 7) if not huge_key(sel, v)]
    return {"status": "REFUTED" if bad else "CONFIRMED", "cexs": bad[:5], "evaluations": 9 * 6 * 3 * 2,
            "note": "labelled native enumeration: no data dimension (the defect class is value-independent); CrossHair defers repr() and "
                    "re-evaluates it outside the traced try block, so the traced run cannot model this path"}

def chk_huge_trail_key(sel, v):
    return huge_key(sel, v)
''', timeout=60, family="dict keys that cannot be rendered in the trail note (int beyond the str conversion limit; labelled enumeration)",
           bounds="Dict[int, int] / Dict[int, List[int]] / DefaultDict[int, Optional[int]] with keys +-10**5000 and a failing value; 6 modes; native")
    mx.ob("pattern_pool", "i: int", "return pattern_pool(i)", pre=["0 <= i < 10"], timeout=60, family="re.Pattern loader on malformed / over-limit patterns",
          bounds="10 patterns incl. a repeat count beyond the engine limit")
    mods.append(mx)
    # enum / flag loaders: the rejection obligations of C18 (no non-LoadError for any atom or container shape)
    from props.C18 import build as build_c18
    for m18 in build_c18(tier, seed).modules:
        if m18.key in ("c18_enum", "c18_flag"):
            keep = [o for o in m18.obs if o.name.startswith("enum_rej_") or o.name.startswith("flag_exact") or o.name.startswith("flag_names_rej_")]
            m18.obs = keep
            mods.append(m18)
    mv = Module("c04_facade").pre('''
from adaptix import Retort, validator, loader, P
from adaptix.load_error import ValidationLoadError, ValueLoadError
import dataclasses
# the builtin wrappers around user predicates: a predicate that says "no" is signalled by a LoadError in every way the error can be given
def _nonneg(x): return type(x) is not int or x >= 0
def _mk_err(x): return ValueLoadError("negative", x)
V_FORMS = {"none": (), "msg": ("must be >= 0",), "factory": (_mk_err,)}
@dataclasses.dataclass
class VM:
    a: int
    b: int = 0
V_RS = {(f, k): r for f, args in V_FORMS.items() for k, r in six_retorts([validator(int, _nonneg, *args), validator(P[VM].b, _nonneg, *args)]).items()}
V_LD = {key: (r.get_loader(int), r.get_loader(List[int]), r.get_loader(VM), r.get_loader(Dict[str, Optional[int]])) for key, r in V_RS.items()}
def validator_forms(fi, v, w, shape):
    form = ("none", "msg", "factory")[pick(fi, 3)]
    for key, (l_int, l_list, l_vm, l_dict) in V_LD.items():
        if key[0] != form: continue
        data, ld = ((v, l_int), ([w, v], l_list), ({"a": w, "b": v}, l_vm), ({"k": v, "n": None}, l_dict))[pick(shape, 4)]
        o = outcome(ld, data)
        if o[0] == "other_exc": return False
        bad = v < 0 or (shape in (1, 2) and w < 0)
        if bad != (o[0] == "load_error"): return False
    return True
''')
    mv.ob("validator_forms", "fi: int, v: int, w: int, shape: int", "return validator_forms(fi, v, w, shape)", pre=["0 <= fi < 3", "0 <= shape < 4"], timeout=120,
          family="builtin wrappers around user predicates (validator): a refusing predicate is a LoadError, whichever way the error is specified",
          bounds="validator(pred, func) / (pred, func, message) / (pred, func, error factory), bound to a type and to a field; datum bare, in a list, in a model, in a dict; symbolic ints; 6 modes")
    mods.append(mv)
    return Plan("C04", mods,
                assumptions=["CrossHair models of builtins (floats as reals: numeric boundary regions are owned by the E2 kernels)"],
                bounds={}, outside=["strings longer than the bound"])
