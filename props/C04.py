"""C04 Invalid input raises LoadError and nothing else."""
from vf.gen import Module, Plan

SCALARS = ["int", "float", "str", "bool", "Decimal", "Fraction", "complex", "bytes", "bytearray", "NoneType", "timedelta"]

SETUP_SCALARS = '''
from decimal import Decimal
from fractions import Fraction
from datetime import timedelta, date, time, datetime
import re
Atom = Union[None, bool, int, float, str, bytes]
NoneType = type(None)
RS = six_retorts()
TYPES = {"int": int, "float": float, "str": str, "bool": bool, "Decimal": Decimal, "Fraction": Fraction,
         "complex": complex, "bytes": bytes, "bytearray": bytearray, "NoneType": None, "timedelta": timedelta,
         "date": date, "time": time, "datetime": datetime, "Pattern": re.Pattern}
LD = {name: {k: r.get_loader(tp) for k, r in RS.items()} for name, tp in TYPES.items()}

def shape(kind: int, d):
    """root-kind selector: the atom itself or the atom inside / next to every wrong container kind"""
    if kind == 0: return d
    if kind == 1: return [d]
    if kind == 2: return (d,)
    if kind == 3: return {"a": d}
    if kind == 4: return []
    if kind == 5: return {}
    if kind == 6: return [[d]]
    if kind == 7: return {1: d}
    return (d, d)

def c04_ok(name, strict, d):
    for dt in DT_MODES:
        o = outcome(LD[name][(strict, dt)], d)
        if o[0] == "other_exc":
            return False
        if o[0] == "load_error" and not only_load_errors(o[2]):
            return False
    return True
'''


def build(tier, seed):
    quick = tier == "quick"
    slen = 2 if quick else 3
    t = 30 if quick else 240
    mods = []
    m = Module("c04_scalars").pre(SETUP_SCALARS)
    for name in SCALARS + ["date", "time", "datetime", "Pattern"]:
        for strict in (True, False):
            m.ob(f"scalar_{name}_{'strict' if strict else 'lax'}",
                 "d: Atom, kind: int",
                 f"return c04_ok({name!r}, {strict}, shape(kind, d))",
                 pre=["0 <= kind <= 8", f"not isinstance(d, (str, bytes)) or len(d) <= {slen}"],
                 timeout=t, family="L1 scalar loaders x atom kinds x root container kinds",
                 bounds=f"atom in None|bool|int|float|str|bytes, len(str/bytes)<={slen}, 9 root shapes, 3 debug modes")
    mods.append(m)
    return Plan("C04", mods,
                assumptions=["CrossHair models of builtins (floats as reals: numeric boundary regions are owned by the E2 kernels)"],
                bounds={"strings": f"len<={slen}"}, outside=["strings longer than the bound"])
