"""Layer 1 (DESIGN.md 4.5): scalar loaders/dumpers on atoms.  Shared by C01, C02, C04, C06, C07."""
from vf.gen import Module

# name -> (python type expr, 'sym' fully symbolic atom | 'sel' selector-built realised atom, alphabet for 'sel')
A_NUM = "01.-+eE_ /nNaAiIfFjJ"
A_ISO = "0129-:T.+Z W"
A_RE = "ab(*)[?+{1}|"
A_B64 = "QU=-\x81"
A_B64X = "QU=-\x81J/+ "
A_HEX = "0f-{} zg"
A_IP = "1.:/3 f0z"
SCALARS = {
    "int": ("int", "sym", A_NUM),
    "float": ("float", "sym", A_NUM),
    "str": ("str", "sym", A_NUM),
    "bool": ("bool", "sym", A_NUM),
    "NoneType": ("None", "sym", A_NUM),
    "bytes": ("bytes", "sym", A_B64),
    "bytearray": ("bytearray", "sym", A_B64),
    "Decimal": ("Decimal", "sel", A_NUM),
    "Fraction": ("Fraction", "sel", A_NUM),
    "complex": ("complex", "sel", A_NUM),
    "timedelta": ("timedelta", "sel", A_NUM),
    "date": ("date", "sel", A_ISO),
    "time": ("time", "sel", A_ISO),
    "datetime": ("datetime", "sel", A_ISO),
    "Pattern": ("re.Pattern", "sel", A_RE),
    "LiteralString": ("LiteralString", "sym", A_NUM),
    "UUID": ("UUID", "sel", A_HEX), "IPv4Address": ("IPv4Address", "sel", A_IP), "IPv6Address": ("IPv6Address", "sel", A_IP),
    "IPv4Network": ("IPv4Network", "sel", A_IP), "IPv4Interface": ("IPv4Interface", "sel", A_IP), "PurePosixPath": ("PurePosixPath", "sel", A_RE),
    "Path": ("Path", "sel", A_RE),
    "BytesIO": ("io.BytesIO", "sel", A_B64X), "IO_bytes": ("IO[bytes]", "sel", A_B64X), "ByteString": ("ByteString", "sel", A_B64X),
    "PathLike_str": ("os.PathLike[str]", "sel", A_RE), "IPv6Network": ("IPv6Network", "sel", A_IP), "IPv6Interface": ("IPv6Interface", "sel", A_IP),
    "PurePath": ("PurePath", "sel", A_RE), "PureWindowsPath": ("PureWindowsPath", "sel", A_RE),
    "datetime_ts": ("datetime", "sel", A_NUM), "date_ts": ("date", "sel", A_NUM), "datetime_fmt": ("datetime", "sel", A_ISO),
}
EXTRA_ONLY_C04 = ("BytesIO", "IO_bytes", "ByteString", "PathLike_str", "IPv6Network", "IPv6Interface", "PurePath", "PureWindowsPath", "UUID", "IPv4Address", "IPv6Address", "IPv4Network", "IPv4Interface", "PurePosixPath", "Path", "datetime_ts", "date_ts", "datetime_fmt")
# loaders that also get a selector-built run although their main run is fully symbolic (C constructors on the lax path)
ALSO_SEL = {"int": A_NUM, "float": A_NUM, "str": A_NUM, "bytes": A_B64, "bytearray": A_B64, "LiteralString": A_NUM}

SETUP = '''
import re, base64
from decimal import Decimal
from fractions import Fraction
from datetime import timedelta, date, time, datetime
Atom = Union[None, bool, int, float, str, bytes]
from uuid import UUID
from ipaddress import IPv4Address, IPv6Address, IPv4Network, IPv4Interface, IPv6Network, IPv6Interface
from pathlib import PurePosixPath, Path, PurePath, PureWindowsPath
import io, os
from datetime import timezone
from adaptix import datetime_by_timestamp, date_by_timestamp, datetime_by_format
RS = six_retorts()
RS_TS = six_retorts([datetime_by_timestamp(tz=timezone.utc), date_by_timestamp()])
RS_FMT = six_retorts([datetime_by_format(fmt="%Y-%m")])
TYPES = {"int": int, "float": float, "str": str, "bool": bool, "Decimal": Decimal, "Fraction": Fraction,
         "complex": complex, "bytes": bytes, "bytearray": bytearray, "NoneType": None, "timedelta": timedelta,
         "date": date, "time": time, "datetime": datetime, "Pattern": re.Pattern, "LiteralString": LiteralString}
TYPES.update({"UUID": UUID, "IPv4Address": IPv4Address, "IPv6Address": IPv6Address, "IPv4Network": IPv4Network, "IPv4Interface": IPv4Interface,
              "PurePosixPath": PurePosixPath, "Path": Path, "BytesIO": io.BytesIO, "IO_bytes": IO[bytes], "ByteString": ByteString,
              "PathLike_str": os.PathLike[str], "IPv6Network": IPv6Network, "IPv6Interface": IPv6Interface, "PurePath": PurePath,
              "PureWindowsPath": PureWindowsPath})
LD = {name: {k: r.get_loader(tp) for k, r in RS.items()} for name, tp in TYPES.items()}
DP = {name: {k: r.get_dumper(tp) for k, r in RS.items()} for name, tp in TYPES.items()}
LD["datetime_ts"] = {k: r.get_loader(datetime) for k, r in RS_TS.items()}
LD["date_ts"] = {k: r.get_loader(date) for k, r in RS_TS.items()}
LD["datetime_fmt"] = {k: r.get_loader(datetime) for k, r in RS_FMT.items()}

def shape(kind: int, d):
    """root-kind selector: the atom itself, or inside / next to each wrong container kind"""
    if kind == 0: return d
    if kind == 1: return [d]
    if kind == 2: return (d,)
    if kind == 3: return {"a": d}
    if kind == 4: return []
    if kind == 5: return {}
    if kind == 6: return [[d]]
    if kind == 7: return {1: d}
    if kind == 9: return ()
    return (d, d)

# ---- documented rules (docs/loading-and-dumping/specific-types-behavior.rst), written independently of the implementation
STRICT_ORIGINS = {"int": (int,), "float": (float, int), "str": (str,), "bool": (bool,), "Decimal": (str, Decimal),
                  "Fraction": (str, Fraction), "complex": (str, complex), "NoneType": (type(None),), "bytes": (str,),
                  "bytearray": (str,), "timedelta": (int, float, Decimal), "date": (str,), "time": (str,),
                  "datetime": (str,), "Pattern": (str,), "LiteralString": (str,)}
B64 = re.compile("[A-Za-z0-9+/]*={0,2}")

def _ctor(name, d):
    if name in ("int", "float", "str", "bool", "Decimal", "Fraction", "complex"):
        return TYPES[name](d)
    if name == "LiteralString":
        return str(d)
    if name == "NoneType":
        if d is not None: raise TypeError
        return None
    if name in ("bytes", "bytearray"):
        if type(d) is not str or not d.isascii() or not B64.fullmatch(d) or len(d) % 4: raise ValueError
        return TYPES[name](base64.b64decode(d))
    if name == "timedelta":
        if type(d) not in (int, float, Decimal): raise TypeError
        if type(d) is int: return timedelta(seconds=d)
        return timedelta(microseconds=round(Fraction(d) * 10**6))
    if name in ("date", "time", "datetime"):
        if type(d) is not str: raise TypeError
        return TYPES[name].fromisoformat(d)
    if name == "Pattern":
        if type(d) is not str: raise TypeError
        return re.compile(d)
    raise KeyError(name)

ALWAYS_EXACT = ("NoneType", "bytes", "bytearray", "timedelta", "date", "time", "datetime", "Pattern")

def ref_scalar(name, strict, d):
    if (strict or name in ALWAYS_EXACT) and type(d) not in STRICT_ORIGINS[name]:
        return ("err", None)
    try:
        return ("ok", _ctor(name, d))
    except Exception:
        return ("err", None)

def close_enough(name, got, exp):
    if name == "timedelta" and type(got) is timedelta and type(exp) is timedelta:
        return abs(got - exp) <= timedelta(microseconds=1)     # the docs do not fix the rounding of float seconds
    if name == "Pattern":
        return type(got) is type(exp) and got.pattern == exp.pattern and got.flags == exp.flags
    return same(got, exp)

def c04_ok(name, strict, d):
    for dt in DT_MODES:
        o = outcome(LD[name][(strict, dt)], d)
        if o[0] == "other_exc":
            return False
        if o[0] == "load_error" and not only_load_errors(o[2]):
            return False
    return True

def c02_ok(name, strict, d):
    exp = ref_scalar(name, strict, d)
    for dt in DT_MODES:
        o = outcome(LD[name][(strict, dt)], d)
        if o[0] == "other_exc":
            continue            # C04's business; do not double report
        if exp[0] == "ok":
            if o[0] != "ok" or not close_enough(name, o[2], exp[1]):
                return False
        elif o[0] == "ok":
            return False
    return True

def c06_ok(name, strict, d):
    outs = [outcome(LD[name][(strict, dt)], d) for dt in DT_MODES]
    if any(o[0] == "other_exc" for o in outs):
        return True             # C04's business
    if len({o[0] for o in outs}) != 1:
        return False
    if outs[0][0] == "ok":
        return all(close_enough(name, o[2], outs[0][2]) for o in outs)
    sig = leaf_sig(outs[0][2])
    return all(leaf_sig(o[2]) == sig for o in outs) if name != "Pattern" else True

def c07_ok(name, d):
    for dt in DT_MODES:
        s = outcome(LD[name][(True, dt)], d)
        l = outcome(LD[name][(False, dt)], d)
        if s[0] == "ok":
            if type(d) not in STRICT_ORIGINS[name]:
                return False
            if l[0] == "other_exc":
                continue
            if l[0] != "ok" or not close_enough(name, l[2], s[2]):
                return False
    return True
'''

BODY = {
    "C04": "return c04_ok({name!r}, {strict}, {data})",
    "C02": "return c02_ok({name!r}, {strict}, {data})",
    "C06": "return c06_ok({name!r}, {strict}, {data})",
    "C07": "return c07_ok({name!r}, {data})",
}


# sym-run restrictions: loaders whose lax path feeds C constructors get strings / containers from the selector runs only
SYM_PRE = {
    ("float", False): ["not isinstance(d, (str, bytes))"],
    ("int", False): ["not isinstance(d, (str, bytes, float))"],
    ("bytes", True): ["not isinstance(d, str)"], ("bytes", False): ["not isinstance(d, str)"],
    ("bytearray", True): ["not isinstance(d, str)"], ("bytearray", False): ["not isinstance(d, str)"],
    ("str", False): ["kind == 0", "d is None or isinstance(d, (str, bool))"],
    ("LiteralString", False): ["kind == 0", "d is None or isinstance(d, (str, bool))"],
}


def l1_loader_module(prop: str, tier: str) -> Module:
    quick = tier == "quick"
    slen = 2 if quick else 3
    tmo = 60 if quick else 300
    m = Module(f"{prop.lower()}_l1").pre(SETUP)
    for name, (texpr, mode, alpha) in SCALARS.items():
        if name in EXTRA_ONLY_C04 and prop != "C04":
            continue                      # constructor-backed types: only the LoadError-only property has a documented oracle
        for strict in ((True, False) if prop != "C07" else (None,)):
            tagname = {True: "strict", False: "lax", None: "pair"}[strict]
            runs = []
            if mode == "sym":
                runs.append(("sym", alpha))
                if name in ALSO_SEL:
                    runs.append(("sel", ALSO_SEL[name]))
            else:
                runs.append(("sel", alpha))
            for rmode, ralpha in runs:
                if rmode == "sym":
                    blen = 1 if name in ("bytes", "bytearray") else slen
                    extra = []
                    for st in ((strict,) if strict is not None else (True, False)):
                        extra += SYM_PRE.get((name, st), [])
                    m.ob(f"l1_{name}_{tagname}_sym", "d: Atom, kind: int",
                         BODY[prop].format(name=name, strict=strict, data="shape(kind, d)"),
                         pre=["0 <= kind <= 8", f"not isinstance(d, (str, bytes)) or len(d) <= {blen}"] + extra,
                         timeout=tmo, family="L1 scalar loaders: symbolic atom x root container kind",
                         bounds=f"atom None|bool|int|float|str|bytes symbolic, len<= {blen}; 9 root shapes; 3 debug modes")
                else:
                    k = len(ralpha)
                    nmax = 4 if name in ("bytes", "bytearray") else slen
                    # strings of the maximal length are sliced by their first character so that every slice exhausts (k**3 strings do not, in one tree)
                    sliced = nmax == 3 and k > 6
                    n_hi = nmax - 1 if sliced else nmax
                    m.ob(f"l1_{name}_{tagname}_sel", "tag: int, n: int, c0: int, c1: int, c2: int, c3: int",
                         BODY[prop].format(name=name, strict=strict, data=f"sel_atom(tag, n, c0, c1, c2, {ralpha!r}, c3)"),
                         pre=["0 <= tag <= 5", f"0 <= n <= {n_hi}", f"0 <= c0 < {k}", f"0 <= c1 < {k}", f"0 <= c2 < {k}", f"0 <= c3 < {k}"],
                         timeout=tmo, family="L1 scalar loaders: selector-built realised atom (C-level constructors)",
                         bounds=f"atoms None|bool|int in [-3,5], +-10**400 and +-10**5000|10 pooled floats incl nan/inf|str over alphabet {ralpha!r} len<= {n_hi}|bytes len<=1",
                         note="values cross a C boundary and are realised: solver-driven enumeration of the selector space")
                    if sliced:
                        step = max(1, 1200 // (k * k))
                        for lo in range(0, k, step):
                            hi = min(k, lo + step)
                            m.ob(f"l1_{name}_{tagname}_sel3_{lo:02d}", "c0: int, c1: int, c2: int",
                                 BODY[prop].format(name=name, strict=strict, data=f"sel_atom(4, 3, c0, c1, c2, {ralpha!r}, 0)"),
                                 pre=[f"{lo} <= c0 < {hi}", f"0 <= c1 < {k}", f"0 <= c2 < {k}"],
                                 timeout=tmo, family="L1 scalar loaders: selector-built realised atom (C-level constructors)",
                                 bounds=f"str of length 3 over alphabet {ralpha!r}, first character in positions {lo}..{hi - 1}",
                                 note="values cross a C boundary and are realised: solver-driven enumeration of the selector space")
                    m.ob(f"l1_{name}_{tagname}_shapes", "tag: int, c0: int, kind: int",
                         BODY[prop].format(name=name, strict=strict, data=f"shape(kind, sel_atom(tag, 1, c0, 0, 0, {ralpha!r}))"),
                         pre=["0 <= tag <= 5", "0 <= c0 <= 1", "1 <= kind <= 9"],
                         timeout=tmo, family="L1 scalar loaders: wrong root container kinds (realised)",
                         bounds="9 container shapes (incl. the empty tuple) x 6 atom kinds x 2 payloads")
    return m
