from vf.gen import Plan, Module
from props.fam_l1 import l1_loader_module
from props.fam_l3 import l3_module
from props.fam_l2 import l2_module


def build(tier, seed):
    mods = [l1_loader_module("C07", tier), l2_module("C07", tier)]
    mods.append(l3_module("C07", tier))
    from props.fam_litenum import litenum_module
    mods.append(litenum_module("C07", tier))
    from props.C15 import build as build_c15
    for m15 in build_c15(tier, seed).modules:
        if m15.key == "c15_literal":
            m15.obs = [o for o in m15.obs if o.name.startswith("lit_loader_")]
            mods.append(m15)
    md = Module("c07_derived").pre('''
import dataclasses
from adaptix import Retort, DebugTrail
@dataclasses.dataclass
class DM:
    a: int
    s: str = "d"
DTYPES = (int, str, bool, float, List[str], Optional[int], Dict[str, int], Tuple[int, str], DM, Union[int, str])
def _touch(r, order_types):
    for t in order_types: r.get_loader(t)
# derived retorts: (name, make(base) -> derived, (strict, debug_trail) the derived one must behave like)
DERIV = (
    ("lax", lambda b: b.replace(strict_coercion=False), (False, DebugTrail.ALL)),
    ("lax_first", lambda b: b.replace(strict_coercion=False, debug_trail=DebugTrail.FIRST), (False, DebugTrail.FIRST)),
    ("lax_disable", lambda b: b.replace(debug_trail=DebugTrail.DISABLE).replace(strict_coercion=False), (False, DebugTrail.DISABLE)),
    ("lax_hide", lambda b: b.replace(strict_coercion=False, hide_traceback=False), (False, DebugTrail.ALL)),
    ("lax_ext", lambda b: b.extend(recipe=[]).replace(strict_coercion=False), (False, DebugTrail.ALL)),
    ("strict_again", lambda b: b.replace(strict_coercion=False).replace(strict_coercion=True), (True, DebugTrail.ALL)),
    ("hide_only", lambda b: b.replace(hide_traceback=False), (True, DebugTrail.ALL)),
)
FRESH = {(st, dt): {t: Retort(strict_coercion=st, debug_trail=dt).get_loader(t) for t in DTYPES} for st in (True, False) for dt in DT_MODES}
CASES = []          # (derived loaders, base loaders, derived mode)
for _name, _mk, _mode in DERIV:
    for _order in ("derived_first", "base_first"):
        _base = Retort(strict_coercion=True, debug_trail=DebugTrail.ALL)
        if _order == "base_first": _touch(_base, DTYPES)
        _d = _mk(_base)
        _dl = {t: _d.get_loader(t) for t in DTYPES}
        _bl = {t: _base.get_loader(t) for t in DTYPES}
        CASES.append((_dl, _bl, _mode))
NC = len(CASES)
def wrapd(kind, d):
    if kind == 0: return d
    if kind == 1: return [d]
    if kind == 2: return {"a": d}
    if kind == 3: return (d, "x")
    return {"a": d, "s": d}
DPOOL = (None, True, False, 0, 1, -1, "", "a", "1", 1.5)
def derived(ci, ti, kind, di):
    d = DPOOL[pick(di, len(DPOOL))]
    dl, bl, mode = CASES[ci]
    t = DTYPES[pick(ti, len(DTYPES))]
    for got, exp in ((dl[t], FRESH[mode][t]), (bl[t], FRESH[(True, DT_MODES[2])][t])):
        o1, o2 = outcome(got, wrapd(kind, d)), outcome(exp, wrapd(kind, d))
        if o1[0] != o2[0] or o1[1] != o2[1]: return False
        if o1[0] == "ok" and not (same(o1[2], o2[2]) or (t is DM and o1[2] == o2[2])): return False
    return True
''')
    for ci in range(14):
        md.ob(f"derived_{ci:02d}", "ti: int, kind: int, di: int", f"return derived({ci}, ti, kind, di)",
              pre=["0 <= ti < 10", "0 <= kind <= 4", "0 <= di < 10"], timeout=90 if tier == "quick" else 300,
              family="retorts derived with replace()/extend() narrow or widen coercion exactly like a fresh retort with those options; the parent keeps its own",
              bounds="7 derivations (strict_coercion with / without debug_trail, hide_traceback, via extend, there and back) x loader requested from the derived or "
                     "the parent retort first; 10 types; 10 pooled atoms (None, bools, ints, strs, float) bare or in 4 wrappers; compared with fresh retorts")
    mods.append(md)
    mm = Module("c07_mapkinds").pre('''
import collections, types, dataclasses, enum, typing
from adaptix import Retort, name_mapping, flag_by_member_names
# "no dict or str to a list" for every kind of Mapping, and for every loader that takes a sequence
class MFlag(enum.Flag):
    a = 1
    b = 2
@dataclasses.dataclass
class MList:
    a: Stub
    b: Stub
MS_TYPES = {"List": List[Stub], "TupleVar": Tuple[Stub, ...], "Tuple2": Tuple[Stub, Stub], "Set": Set[Stub], "Deque": Deque[Stub], "Sequence": typing.Sequence[Stub],
            "ListAny": List[Any], "as_list_model": MList, "flag_names": MFlag}
MS_RS = six_retorts([name_mapping(MList, as_list=True), flag_by_member_names(MFlag)] + STUB_RECIPE)
MS_LD = {(n, k): r.get_loader(t) for n, t in MS_TYPES.items() for k, r in MS_RS.items()}
MAP_KINDS = (dict, collections.OrderedDict, lambda d: collections.defaultdict(int, d), types.MappingProxyType, lambda d: collections.ChainMap(d, {}), collections.UserDict,
             collections.Counter)
def mapping_to_sequence(ti, mk, k0, k1, v):
    name = list(MS_TYPES)[pick(ti, len(MS_TYPES))]
    keys = (("a", "b"), (0, 1), ("a",), (1, 0), ())[pick(k0, 5)]
    conv = MAP_KINDS[pick(mk, len(MAP_KINDS))]
    data = conv({k: v for k in keys})
    for dt in DT_MODES:
        s = outcome(MS_LD[(name, (True, dt))], data)
        if s[0] != "load_error": return False            # strict: a Mapping is never taken for a sequence
        l = outcome(MS_LD[(name, (False, dt))], data)
        if l[0] == "other_exc": return False
    return True
''')
    mm.ob("mapping_never_a_sequence", "ti: int, mk: int, k0: int, k1: int, v: int", "return mapping_to_sequence(ti, mk, k0, k1, v)",
          pre=["0 <= ti < 9", "0 <= mk < 7", "0 <= k0 < 5", "0 <= v <= 3"], timeout=120 if tier == "quick" else 400,
          family="strict mode never takes a Mapping for a sequence, whatever the Mapping class",
          bounds="9 sequence-taking loaders (list, tuples, set, deque, Sequence, List[Any], list-layout model, flag by member names) x 7 mapping kinds (dict, OrderedDict, defaultdict, "
                 "MappingProxyType, ChainMap, UserDict, Counter) x 5 key sets (member names, indices, empty); 3 debug modes")
    mods.append(mm)
    return Plan("C07", mods, assumptions=["CrossHair models of builtins (floats as reals: numeric boundary regions are owned by the E2 kernels)"],
                bounds={}, outside=["strings longer than the bound"])
