from vf.gen import Plan
from props.fam_l1 import l1_loader_module
from props.fam_l3 import l3_module
from props.fam_l2 import l2_module


def build(tier, seed):
    mods = [l1_loader_module("C07", tier), l2_module("C07", tier)]
    mods.append(l3_module("C07", tier))
    from props.C15 import build as build_c15
    for m15 in build_c15(tier, seed).modules:
        if m15.key == "c15_literal":
            m15.obs = [o for o in m15.obs if o.name.startswith("lit_loader_")]
            mods.append(m15)
    return Plan("C07", mods, assumptions=["CrossHair models of builtins (floats as reals: numeric boundary regions are owned by the E2 kernels)"],
                bounds={}, outside=["strings longer than the bound"])
