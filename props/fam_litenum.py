"""Literal hints that list enum members next to plain values (shared by C01, C02, C07)."""
from vf.gen import Module

SETUP = '''
import enum, typing
from typing import Literal
class Level(enum.IntEnum):
    NONE = 0
    LOW = 1
    HIGH = 2
class Col(enum.Enum):
    R = 1
    G = 2
    B = "x"
class SCol(str, enum.Enum):
    A = "a"
    B = "b"
LE_TYPES = {
    "IntEnum_and_1": Literal[Level.HIGH, 1], "IntEnum_and_5": Literal[Level.HIGH, 5], "IntEnum_and_0_True": Literal[Level.LOW, 0, True],
    "Enum_and_2": Literal[Col.R, 2], "Enum_and_x": Literal[Col.R, "x"], "Enum_both": Literal[Col.R, Col.G, 1], "StrEnum_and_b": Literal[SCol.A, "b"],
    "IntEnum_big": Literal[Level.HIGH, 1, 5, 6, 7, "s"], "Enum_big": Literal[Col.G, Col.B, 1, 3, 4, 5], "two_enums": Literal[Level.LOW, Col.G, "q"],
    "IntEnum_only": Literal[Level.NONE, Level.HIGH], "Enum_bytes": Literal[Col.R, b"ab", 2],
    # no enum at all: both members of a bool/int look-alike pair in a literal that is large enough for the set branch
    "big_0_False": Literal[0, False, "a", "b", "c"], "big_1_True": Literal[1, True, 2, 3, 4], "big_all": Literal[0, 1, False, True, "x"], "small_0_False": Literal[0, False],
    # None listed next to falsy members
    # bytes members next to a bool / 0 / 1 member (the typed strict branch) and next to enum members
    "bytes_1": Literal[b"ab", 1], "bytes_True_x": Literal[b"ab", True, "x"], "bytes_0_enum": Literal[b"ab", 0, Col.G], "bytes_2": Literal[b"ab", 2],
    "none_0_1": Literal[0, 1, None], "none_empty": Literal["", "a", None], "none_FT": Literal[False, True, None], "none_big": Literal[None, 0, "", False, 2, "b"],
}
LE_RS = six_retorts()
LE_LD = {(n, k): r.get_loader(t) for n, t in LE_TYPES.items() for k, r in LE_RS.items()}
LE_DP = {(n, k): r.get_dumper(t) for n, t in LE_TYPES.items() for k, r in LE_RS.items()}
ENUM_LD = {E: Retort().get_loader(E) for E in (Level, Col, SCol)}          # the enum loaders are the children of the literal loader (their own rules: C18)
BYTES_LD = Retort().get_loader(bytes)
LE_POOL = (None, True, False, 0, 1, 2, 5, 6, "x", "a", "b", "q", "s", "", 1.0, 2.0, "YWI=", b"ab", [1], 3)
def le_cases(name): return typing.get_args(LE_TYPES[name])
def typed_literal(name):
    """with strict coercion a Literal that lists a bool, 0 or 1 compares (type, value) pairs ("since True == 1 and False == 0")"""
    return any(isinstance(c, bool) or (type(c) is int and c in (0, 1)) for c in le_cases(name))
def rep(d, case, strict, typed=False):
    """is datum d a representation of this case, and which value does it load to?"""
    if isinstance(case, enum.Enum):
        o = outcome(ENUM_LD[type(case)], d)
        return (o[0] == "ok" and o[2] is case), case
    if isinstance(case, bytes):
        o = outcome(BYTES_LD, d)
        if o[0] == "ok" and o[2] == case: return True, case
    try: eq = (d == case)
    except Exception: eq = False
    if not eq: return False, None
    # documented: membership is ==, except that strict coercion tells bool from int (True == 1, False == 0)
    if strict and typed and type(d) is not type(case): return False, None
    return True, d
def le_load(name, di):
    """a datum is accepted iff it represents one of the listed cases; the result is that case (enum member / bytes) or the datum itself"""
    d = LE_POOL[pick(di, len(LE_POOL))]
    for k in LE_RS:
        strict = k[0]
        o = outcome(LE_LD[(name, k)], d)
        if o[0] == "other_exc": return False
        exp = [v for ok, v in (rep(d, c, strict, typed_literal(name)) for c in le_cases(name)) if ok]
        if (o[0] == "ok") != bool(exp): return False
        if o[0] == "ok" and not any(o[2] is v or (not isinstance(v, enum.Enum) and type(o[2]) is type(v) and o[2] == v) for v in exp): return False
    return True
def le_roundtrip(name, ci):
    cases = le_cases(name)
    c = cases[pick(ci, len(cases))]
    for k in LE_RS:
        back = LE_LD[(name, k)](LE_DP[(name, k)](c))
        if isinstance(c, enum.Enum):
            if back is not c: return False
        elif type(back) is not type(c) or back != c: return False
    return True
def le_strict_lax(name, di):
    d = LE_POOL[pick(di, len(LE_POOL))]
    for dt in DT_MODES:
        s, l = outcome(LE_LD[(name, (True, dt))], d), outcome(LE_LD[(name, (False, dt))], d)
        if s[0] == "ok":
            if l[0] != "ok": return False
            if not (l[2] is s[2] or (type(l[2]) is type(s[2]) and l[2] == s[2])): return False
    return True
'''

NAMES = ["IntEnum_and_1", "IntEnum_and_5", "IntEnum_and_0_True", "Enum_and_2", "Enum_and_x", "Enum_both", "StrEnum_and_b", "IntEnum_big", "Enum_big", "two_enums",
         "IntEnum_only", "Enum_bytes", "big_0_False", "big_1_True", "big_all", "small_0_False", "none_0_1", "none_empty", "none_FT", "none_big", "bytes_1", "bytes_True_x", "bytes_0_enum", "bytes_2"]
NCASES = {"IntEnum_and_1": 2, "IntEnum_and_5": 2, "IntEnum_and_0_True": 3, "Enum_and_2": 2, "Enum_and_x": 2, "Enum_both": 3, "StrEnum_and_b": 2, "IntEnum_big": 6, "Enum_big": 6,
          "two_enums": 3, "IntEnum_only": 2, "Enum_bytes": 3, "big_0_False": 5, "big_1_True": 5, "big_all": 5, "small_0_False": 2, "none_0_1": 3, "none_empty": 3, "none_FT": 3, "none_big": 6, "bytes_1": 2, "bytes_True_x": 3, "bytes_0_enum": 3, "bytes_2": 2}


def litenum_module(prop: str, tier: str) -> Module:
    m = Module(f"{prop.lower()}_litenum").pre(SETUP)
    fam = "Literal hints listing enum members next to plain values (look-alikes of the members' values, bytes, several enum classes)"
    for n in NAMES:
        if prop == "C02":
            m.ob(f"litenum_load_{n}", "di: int", f"return le_load({n!r}, di)", pre=["0 <= di < 20"], timeout=60, family=fam,
                 bounds="20 pooled data (None, bools, ints, strs, floats, base64 text, bytes, list); enum members are loaded by their own loader (child contract); 6 modes")
        if prop == "C01" and n not in ("Enum_both", "IntEnum_and_0_True"):       # two cases share a representation there (Col.R / 1, Level.LOW / True): like overlapping union cases
            m.ob(f"litenum_rt_{n}", "ci: int", f"return le_roundtrip({n!r}, ci)", pre=[f"0 <= ci < {NCASES[n]}"], timeout=60, family=fam,
                 bounds="every listed case is dumped and loaded back to itself (identity for enum members, equal value of the same type otherwise); 6 modes")
        if prop == "C07":
            m.ob(f"litenum_pair_{n}", "di: int", f"return le_strict_lax({n!r}, di)", pre=["0 <= di < 20"], timeout=60, family=fam,
                 bounds="20 pooled data; strict accepted => lax accepted with the same value; 3 debug modes")
    return m
