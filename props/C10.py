"""C10 Predicates (types, strings, P patterns and combinators) match as documented."""
from vf.gen import Module, Plan

SETUP = '''
import abc, re, typing, dataclasses
from typing import Protocol, runtime_checkable
from adaptix import P, Retort, loader, bound
from adaptix._internal.provider.loc_stack_filtering import (LocStack, LocStackChecker, LocStackEndChecker, create_loc_stack_checker)
from adaptix._internal.provider.location import TypeHintLoc, FieldLoc, GenericParamLoc, InputFieldLoc
from adaptix._internal.model_tools.definitions import NoDefault

class TabChecker(LocStackChecker):
    """stub checker: truth value is a function of the length of the stack it is shown"""
    def __init__(self, tab): self.tab = tab
    def check_loc_stack(self, mediator, loc_stack): return self.tab[len(loc_stack)]

def mk_stack(n):
    return LocStack(*[TypeHintLoc(type=int) for _ in range(n)])

def end_checker(n, k, tabs):
    """a P chain of k stub elements on a stack of depth n matches iff n >= k and element j accepts the stack cut after
    position n-(k-1-j)"""
    n, k = pick(n, 5), pick(k, 4)
    if k == 0: return True
    chs = [TabChecker(tabs[j]) for j in range(k)]
    pat = P
    for c in chs: pat = pat[c]
    got = pat.build_loc_stack_checker().check_loc_stack(None, mk_stack(n))
    exp = n >= k and all(tabs[j][n - (k - 1 - j)] for j in range(k))
    direct = LocStackEndChecker(chs).check_loc_stack(None, mk_stack(n))
    return got == exp and (k == 1 or direct == exp)

def combinators(a, b, c, op):
    """|, &, ^, ~ are the pointwise boolean operations (checkers, patterns and mixed operands)"""
    ca, cb, cc = TabChecker([a] * 4), TabChecker([b] * 4), TabChecker([c] * 4)
    st = mk_stack(1)
    def ev(x):
        if not isinstance(x, LocStackChecker): x = x.build_loc_stack_checker()
        return x.check_loc_stack(None, st)
    if op == 0: return ev(ca | cb) == (a or b) and ev(P[ca] | P[cb]) == (a or b) and ev(P[ca] | cb) == (a or b) and ev(ca | P[cb]) == (a or b)
    if op == 1: return ev(ca & cb) == (a and b) and ev(P[ca] & P[cb]) == (a and b) and ev(P[ca] & cb) == (a and b) and ev(ca & P[cb]) == (a and b)
    if op == 2: return ev(ca ^ cb) == (a != b) and ev(P[ca] ^ P[cb]) == (a != b) and ev(P[ca] ^ cb) == (a != b) and ev(ca ^ P[cb]) == (a != b)
    if op == 3: return ev(~ca) == (not a) and ev(~P[ca]) == (not a)
    if op == 4: return ev((ca | cb) & ~cc) == ((a or b) and not c) and ev((P[ca] ^ P[cb]) | P[cc]) == ((a != b) or c)
    if op == 5: return ev(P[ca, cb]) == (a or b) and ev(P[ca, cb, cc]) == (a or b or c)
    return ev(ca ^ cb ^ cc) == ((a != b) != c) and ev(ca & cb & cc) == (a and b and c) and ev(ca | cb | cc) == (a or b or c)

# ---- universe for real checkers
class C: pass
class D(C): pass
class Abs(abc.ABC):
    @abc.abstractmethod
    def m(self): ...
class Impl(Abs):
    def m(self): return 1
class ConcreteABC(abc.ABC):           # ABC metaclass but no abstract method: a concrete class
    pass
class SubConcreteABC(ConcreteABC): pass
@runtime_checkable
class Proto(Protocol):
    def pm(self) -> int: ...
class PImpl:
    def pm(self) -> int: return 1
class PExplicit(Proto):
    def pm(self) -> int: return 2
G_T = typing.TypeVar("G_T")
class Gen(typing.Generic[G_T]): pass
class GAbs(abc.ABC, typing.Generic[G_T]):                 # generic AND abstract
    @abc.abstractmethod
    def gm(self) -> G_T: ...
class GImpl(GAbs[int]):
    def gm(self): return 1
class GImplGen(GAbs[G_T]):
    def gm(self): return None
@runtime_checkable
class GProto(Protocol[G_T]):                               # generic runtime protocol
    def gpm(self) -> G_T: ...
class GPImpl:
    def gpm(self): return 1
class GPExplicit(GProto[int]):
    def gpm(self): return 1
GEN_TYPES = {"GAbs": GAbs, "GAbs_int": GAbs[int], "GImpl": GImpl, "GImplGen": GImplGen, "GImplGen_str": GImplGen[str], "GProto": GProto,
             "GProto_int": GProto[int], "GPImpl": GPImpl, "GPExplicit": GPExplicit}
TYPES = {"int": int, "str": str, "bool": bool, "C": C, "D": D, "Abs": Abs, "Impl": Impl, "ConcreteABC": ConcreteABC,
         "SubConcreteABC": SubConcreteABC, "Proto": Proto, "PImpl": PImpl, "PExplicit": PExplicit, "List_int": typing.List[int],
         "list": list, "list_str": list[str], "Gen": Gen, "Gen_int": Gen[int], "Opt_int": typing.Optional[int], "Sequence": typing.Sequence,
         "Seq_int": typing.Sequence[int]}
TYPES.update(GEN_TYPES)
def expected_type_match(pred, loc):
    """documented: a concrete class matches exactly that type; abstract classes and runtime protocols every subclass/implementation;
    a parametrised generic matches exactly that parametrisation; a bare generic every parametrisation"""
    p, l = TYPES[pred], TYPES[loc]
    if pred in ("Abs",): return loc in ("Abs", "Impl")
    if pred in ("Proto",): return loc in ("Proto", "PImpl", "PExplicit")
    if pred == "Sequence": return loc in ("Sequence", "Seq_int", "List_int", "list", "list_str", "str")
    if pred == "list": return loc in ("list", "List_int", "list_str")
    if pred == "Gen": return loc in ("Gen", "Gen_int")
    if pred == "GAbs": return loc in ("GAbs", "GAbs_int", "GImpl", "GImplGen", "GImplGen_str")        # bare generic + abstract: every subclass, every parametrisation
    if pred == "GProto": return loc in ("GProto", "GProto_int", "GPImpl", "GPExplicit")
    if pred == "GImplGen": return loc in ("GImplGen", "GImplGen_str")
    return pred == loc or {pred, loc} == {"List_int", "list_int"}
TYPE_PREDS = ["int", "str", "bool", "C", "D", "Abs", "Impl", "ConcreteABC", "SubConcreteABC", "Proto", "PImpl", "List_int", "list", "list_str",
              "Gen", "Gen_int", "Opt_int", "Sequence", "Seq_int", "GAbs", "GAbs_int", "GImpl", "GImplGen", "GImplGen_str", "GProto", "GProto_int", "GPImpl"]

def fld(name, tp=int):
    return InputFieldLoc(type=tp, field_id=name, default=NoDefault(), metadata={}, is_required=True)

# special forms as predicates (Union, None, Literal, Annotated) and equivalent spellings of union / None hints as locations
SF_PREDS = {"Union": typing.Union, "None": None, "NoneType": type(None), "Literal": typing.Literal, "Opt_int": typing.Optional[int], "pipe_int_none": int | None,
            "Lit_None": typing.Literal[None], "U_int_str": typing.Union[int, str], "U_str_int": typing.Union[str, int], "Annotated": typing.Annotated}
SF_LOCS = {"Opt_int": typing.Optional[int], "pipe_int_none": int | None, "pipe_none_int": None | int, "U_int_str": typing.Union[int, str], "pipe_str_int": str | int,
           "NoneType": type(None), "None": None, "Lit_None": typing.Literal[None], "Lit_a": typing.Literal["a"], "Ann_opt": typing.Annotated[typing.Optional[int], "m"],
           "int": int, "Opt_U": typing.Optional[typing.Union[int, str]]}
_UNIONS = ("Opt_int", "pipe_int_none", "pipe_none_int", "U_int_str", "pipe_str_int", "Opt_U")
_NONES = ("NoneType", "None", "Lit_None")
SF_EXPECT = {"Union": _UNIONS, "None": _NONES, "NoneType": _NONES, "Lit_None": _NONES, "Literal": ("Lit_a",), "Opt_int": ("Opt_int", "pipe_int_none", "pipe_none_int"),
             "pipe_int_none": ("Opt_int", "pipe_int_none", "pipe_none_int"), "U_int_str": ("U_int_str", "pipe_str_int"), "U_str_int": ("U_int_str", "pipe_str_int"),
             "Annotated": ("Ann_opt",)}
def chk_special_form(pred, loc):
    """a special form matches every hint of that form however it is spelled; checked standalone, through P[...], negated, and combined with another checker"""
    tp, exp = SF_PREDS[pred], loc in SF_EXPECT[pred]
    ch = create_loc_stack_checker(tp)
    chp = P[tp].build_loc_stack_checker()
    for st in (LocStack(TypeHintLoc(type=SF_LOCS[loc])), LocStack(TypeHintLoc(type=C), fld("x", SF_LOCS[loc]))):
        if ch.check_loc_stack(None, st) != exp or chp.check_loc_stack(None, st) != exp: return False
        if (~P[tp]).build_loc_stack_checker().check_loc_stack(None, st) != (not exp): return False
        if (P[tp] & ~P[bytes]).build_loc_stack_checker().check_loc_stack(None, st) != exp: return False
    if P[C][tp].build_loc_stack_checker().check_loc_stack(None, LocStack(TypeHintLoc(type=C), fld("x", SF_LOCS[loc]))) != exp: return False
    return True

STR_PREDS = ("a", "ab", "a_1", "a|bc", "a.", "a+", "[ab]c", "a?b", "_", "a1")
def ref_str_match(pred, s):
    """independent statement of: identifier -> exact match, otherwise full regex match"""
    if pred in ("a", "ab", "a_1", "_", "a1"): return s == pred
    if pred == "a|bc": return s == "a" or s == "bc"
    if pred == "a.": return len(s) == 2 and s[0] == "a" and s[1] != chr(10)
    if pred == "a+": return len(s) >= 1 and all(ch == "a" for ch in s)
    if pred == "[ab]c": return s == "ac" or s == "bc"
    if pred == "a?b": return s == "b" or s == "ab"
    raise KeyError(pred)
STR_CHECKERS = {p: create_loc_stack_checker(p) for p in STR_PREDS}
STR_CHECKERS_P = {p: P[p].build_loc_stack_checker() for p in STR_PREDS}

def str_pred(pi, s):
    pred = STR_PREDS[pick(pi, len(STR_PREDS))]
    st = LocStack(TypeHintLoc(type=C), fld(s))
    exp = ref_str_match(pred, s)
    if STR_CHECKERS[pred].check_loc_stack(None, st) != exp: return False
    if STR_CHECKERS_P[pred].check_loc_stack(None, st) != exp: return False
    # a string predicate never matches a location without a field id
    return not STR_CHECKERS[pred].check_loc_stack(None, LocStack(TypeHintLoc(type=str)))

# ---- documented identities on real stacks
LOCS = (("t", "int"), ("t", "C"), ("t", "D"), ("t", "Impl"), ("f", "n", "int"), ("f", "m", "C"), ("f", "n", "D"), ("g", 0, "int"), ("g", 1, "C"), ("f", "_n", "int"), ("f", "n_", "C"))
def mk_loc(i):
    d = LOCS[i]
    if d[0] == "t": return TypeHintLoc(type=TYPES[d[1]])
    if d[0] == "f": return fld(d[1], TYPES[d[2]])
    return GenericParamLoc(type=TYPES[d[2]], generic_pos=d[1])
def real_stack(n, l0, l1, l2):
    n = pick(n, 4)
    return LocStack(*[mk_loc(pick(l, len(LOCS))) for l in (l0, l1, l2)[:n]])
def chk(x, st):
    if not isinstance(x, LocStackChecker):
        x = x.build_loc_stack_checker() if hasattr(x, "build_loc_stack_checker") else create_loc_stack_checker(x)
    return x.check_loc_stack(None, st)
IDENT = [
    ("P['n'] == P.n", lambda: P["n"], lambda: P.n),
    ("P[C] == C", lambda: P[C], lambda: C),
    ("P[Abs] == Abs", lambda: P[Abs], lambda: Abs),
    ("P[C] + P.n == P[C].n", lambda: P[C] + P.n, lambda: P[C].n),
    ("P[C] + P.n.m == P[C].n.m", lambda: P[C] + P.n.m, lambda: P[C].n.m),
    ("P[C].n + P.m == P[C].n.m", lambda: P[C].n + P.m, lambda: P[C].n.m),
    ("P[C, D] == P[C] | P[D]", lambda: P[C, D], lambda: P[C] | P[D]),
    ("P[C, 'n'] == P[C] | P.n", lambda: P[C, "n"], lambda: P[C] | P.n),
    ("P[int].n + P[D] == P[int].n[D]", lambda: P[int].n + P[D], lambda: P[int].n[D]),
    ("P.n[D] == P['n'][D]", lambda: P.n[D], lambda: P["n"][D]),
    # field ids that are private / mangled-looking / keyword-like names are names like any other
    ("P._n == P['_n']", lambda: P._n, lambda: P["_n"]),
    ("P[C]._n == P[C] + P['_n']", lambda: P[C]._n, lambda: P[C] + P["_n"]),
    ("P.n_ == P['n_']", lambda: P.n_, lambda: P["n_"]),
    ("P._n.m == P['_n']['m']", lambda: P._n.m, lambda: P["_n"]["m"]),
    ("P[C, '_n'] == P[C] | P._n", lambda: P[C, "_n"], lambda: P[C] | P._n),
]
IDENT_BUILT = [(nm, a(), b()) for nm, a, b in IDENT]
# pattern OBJECTS that were already used (checker built, evaluated, given to a provider, operand of | & ^ ~) and are extended afterwards
def _use(pat):
    ch = pat.build_loc_stack_checker()
    ch.check_loc_stack(None, LocStack(TypeHintLoc(type=int)))
    loader(pat, lambda x: x)
    (pat | P[int]); (pat & P[int]); (pat ^ P[int]); (~pat)
    Retort(recipe=[loader(pat, lambda x: x)]).get_loader(int)
    return pat
_u, _v, _w, _x = _use(P[C]), _use(P.n), _use(P[C].n), _use(P[int, D])
REUSED = [
    ("used P[C] then .n", _u.n, P[C].n), ("used P[C] then ['n']", _u["n"], P[C]["n"]), ("used P[C] then + P.n", _u + P.n, P[C].n),
    ("used P[C] then [D]", _u[D], P[C][D]), ("used P[C] then .n.m", _u.n.m, P[C].n.m), ("P[int] + used P[C]", P[int] + _u, P[int][C]),
    ("used P.n then [D]", _v[D], P.n[D]), ("used P.n then .m", _v.m, P.n.m), ("used P[C].n then .m", _w.m, P[C].n.m),
    ("P[int] + used P[C].n", P[int] + _w, P[int][C].n), ("used P[C].n then [D]", _w[D], P[C].n[D]), ("used P[int, D] then .n", _x.n, P[int, D].n),
    ("used P[C] again", _u, P[C]), ("used P.n again", _v, P.n), ("used P[C].n again", _w, P[C].n),
    ("used P[C] then generic_arg", _u.generic_arg(0, int), P[C].generic_arg(0, int)),
]
def identities(n, l0, l1, l2):
    st = real_stack(n, l0, l1, l2)
    if len(st) == 0: return True
    for nm, a, b in IDENT_BUILT:
        if chk(a, st) != chk(b, st): return False
    for nm, a, b in REUSED:
        if chk(a, st) != chk(b, st): return False
    # and the semantics of a chain on real locations: tail satisfies the elements in order
    last_is_n = isinstance(st.last, InputFieldLoc) and st.last.field_id == "n"
    if chk(P.n, st) != last_is_n: return False
    exp = len(st) >= 2 and last_is_n and st[-2].type is C
    if chk(P[C].n, st) != exp: return False
    exp3 = len(st) >= 3 and st[-3].type is int and isinstance(st[-2], InputFieldLoc) and st[-2].field_id == "n" and st[-1].type is D
    return chk(P[int].n[D], st) == exp3
'''

NAT = '''
def nat_type_matrix():
    ev, bad = 0, []
    for pred in TYPE_PREDS:
        try:
            ch = create_loc_stack_checker(TYPES[pred])
            chp = P[TYPES[pred]].build_loc_stack_checker()
        except Exception as e:
            bad.append({"pred": repr(pred), "loc": repr("<creation: %r>" % (e,))}); continue
        for loc in TYPES:
            ev += 1
            if not chk_type_matrix(pred, loc): bad.append({"pred": repr(pred), "loc": repr(loc)})
    for pred in SF_PREDS:
        for loc in SF_LOCS:
            ev += 1
            try:
                ok = chk_special_form(pred, loc)
            except Exception as e:
                ok = False
            if not ok: bad.append({"pred": repr("sf:" + pred), "loc": repr(loc)})
    return {"status": "REFUTED" if bad else "CONFIRMED", "cexs": bad[:5], "evaluations": ev,
            "note": "labelled enumeration: class predicate x location type matrix (no data dimension)"}

def chk_type_matrix(pred, loc):
    if pred.startswith("sf:"): return chk_special_form(pred[3:], loc)
    ch = create_loc_stack_checker(TYPES[pred])
    chp = P[TYPES[pred]].build_loc_stack_checker()
    exp = expected_type_match(pred, loc)
    for st in (LocStack(TypeHintLoc(type=TYPES[loc])), LocStack(TypeHintLoc(type=int), fld("x", TYPES[loc]))):
        if ch.check_loc_stack(None, st) != exp or chp.check_loc_stack(None, st) != exp: return False
        if (~P[TYPES[pred]]).build_loc_stack_checker().check_loc_stack(None, st) != (not exp): return False
    return True
'''

E2E = '''
@dataclasses.dataclass
class Inner:
    a: int
    b: int
@dataclasses.dataclass
class Outer:
    a: int
    inner: Inner
    items: typing.List[int]
def f1(x): return x * 2 + 1
def f2(x): return x * 3 + 1
def f3(x): return x * 5 + 1
def f4(x): return x * 7 + 1
def f5(x): return x * 11 + 1
R = Retort(recipe=[
    loader(P[Outer].inner.a, f1),          # chain of 3: only Inner.a below Outer.inner
    loader(P[Inner].b, f2),                # Inner.b wherever Inner is
    loader(P[Outer].a, f3),                # Outer.a only
    loader(P[typing.List[int]] + P.generic_arg(0, int), f4) if False else loader(P[Outer].items.generic_arg(0, int), f4),
    bound(P[Outer] | P[Inner], loader("zzz", f5)),   # bound conjunction: never matches (no such field)
])
L_OUTER = R.get_loader(Outer)
L_INNER = R.get_loader(Inner)
def e2e(a, ia, ib, x):
    o = L_OUTER({"a": a, "inner": {"a": ia, "b": ib}, "items": [x]})
    i = L_INNER({"a": ia, "b": ib})
    return (o.a == f3(a) and o.inner.a == f1(ia) and o.inner.b == f2(ib) and o.items == [f4(x)]
            and i.a == ia and i.b == f2(ib))
'''


MULTI = '''
import enum, itertools, dataclasses
from adaptix import Retort, P, enum_by_name, enum_by_value, enum_by_exact_value, flag_by_member_names, flag_by_exact_value, loader, dumper, bound
from adaptix.conversion import ConversionRetort, allow_unlinked_optional, forbid_unlinked_optional
class EA(enum.Enum):
    X = 1
    Y = 2
class EB(enum.Enum):
    P_ = 3
    Q = 4
class EC(enum.Enum):
    Z = 5
    W = 6
class FA(enum.Flag):
    A = 1
    B = 2
class FB(enum.Flag):
    C = 1
    D = 2
for _v in range(4): FA(_v); FB(_v)
# every order of first use of a provider built from SEVERAL predicates: it serves each of its predicates, every time, and nothing else
ORDERS = list(itertools.permutations(("EA", "EB", "EC", "int"), 4))
TP = {"EA": EA, "EB": EB, "EC": EC, "int": int, "FA": FA, "FB": FB}
MULTI_CASES = []
for _order in ORDERS:
    _r = Retort(recipe=[enum_by_name(EA, EB), flag_by_member_names(FA, FB)])
    _got = {}
    for _rep in (0, 1):
        for _n in _order + ("FB", "FA"):
            _got[(_n, _rep)] = (_r.get_loader(TP[_n]), _r.get_dumper(TP[_n]))
    MULTI_CASES.append(_got)
NMC = len(MULTI_CASES)
@dataclasses.dataclass
class US:
    a: int
@dataclasses.dataclass
class UD:
    a: int
    x: int = 7
    y: int = 8
    z: int = 9
def _conv_ok(mk):
    try: mk(); return True
    except Exception: return False
# allow_unlinked_optional with several predicates: all three optional fields may stay unlinked, in whatever order the fields are asked for
CR_ALLOW = ConversionRetort(recipe=[allow_unlinked_optional("x", "y", "z")])
CR_FORBID = ConversionRetort(recipe=[forbid_unlinked_optional("x", "y", "z")])
CONV_ALLOW = [CR_ALLOW.get_converter(US, UD) for _ in range(2)]
FORBID_REFUSED = [not _conv_ok(lambda: CR_FORBID.get_converter(US, UD)) for _ in range(2)]
# classes whose members are EQUAL (and hash-equal) across classes: IntEnum / str-mixin enums / IntFlag with the same values, served by one provider in one retort
class WA(enum.IntEnum):
    MON = 1
    TUE = 2
class WB(enum.IntEnum):
    LOW = 1
    HIGH = 2
class SA(str, enum.Enum):
    P1 = "a"
    P2 = "b"
class SB(str, enum.Enum):
    Q1 = "a"
    Q2 = "b"
class IFA(enum.IntFlag):
    R = 1
    W_ = 2
class IFB(enum.IntFlag):
    X = 1
    Y = 2
for _v in range(4): IFA(_v); IFB(_v)
EQ_CASES = []
for _order in itertools.permutations((WA, WB, SA, SB, IFA, IFB)):
    if _order.index(WA) > 2 and _order.index(SA) > 2: continue            # a sample of 6! orders that varies which class of each pair comes first
    _r = Retort(recipe=[enum_by_name(), flag_by_member_names()])
    EQ_CASES.append({E: (_r.get_loader(E), _r.get_dumper(E)) for E in _order})
    if len(EQ_CASES) >= 40: break
NEQ = len(EQ_CASES)
def equal_members(ci, mi):
    got = EQ_CASES[pick(ci, NEQ)]
    mi = 1 if mi else 0
    for E in (WA, WB, SA, SB):
        member = list(E)[mi]
        ld, dp = got[E]
        if dp(member) != member.name or ld(member.name) is not member: return False
    for F in (IFA, IFB):
        ld, dp = got[F]
        member = list(F)[mi]
        if dp(member) != [member.name] or ld([member.name]) is not member: return False
        if sorted(dp(F(3))) != sorted(m.name for m in F) or ld([m.name for m in F]) != F(3): return False
    return True

def multi(ci, rep, mi, v):
    got = MULTI_CASES[pick(ci, NMC)]
    rep = 1 if rep else 0
    mi = 1 if mi else 0
    for n, E in (("EA", EA), ("EB", EB)):
        member = list(E)[mi]
        ld, dp = got[(n, rep)]
        if dp(member) != member.name or ld(member.name) is not member: return False          # by name
        if outcome(ld, member.value)[0] != "load_error": return False
    member = list(EC)[mi]
    ld, dp = got[("EC", rep)]
    if dp(member) != member.value or ld(member.value) is not member: return False              # untouched: by value
    ld, dp = got[("int", rep)]
    if ld(v) != v or dp(v) != v: return False
    for n, F in (("FA", FA), ("FB", FB)):
        ld, dp = got[(n, rep)]
        names = [m.name for m in F if m.value & (mi + 1)]
        if sorted(dp(F(mi + 1))) != sorted(names) or ld(names) != F(mi + 1): return False
    return CONV_ALLOW[rep](US(v)) == UD(v, 7, 8, 9) and FORBID_REFUSED[rep]
'''


def build(tier, seed):
    quick = tier == "quick"
    tmo = 90 if quick else 600
    m = Module("c10_pred").pre(SETUP)
    m.ob("end_checker", "n: int, k: int, tabs: List[List[bool]]", "return end_checker(n, k, tabs)",
         pre=["1 <= n <= 4", "0 <= k <= 3", "len(tabs) == 3", "all(len(t) == 5 for t in tabs)"], timeout=tmo,
         family="P chain over stub checkers with a symbolic truth table",
         bounds="stack depth 1..4 (a location stack is never empty), chain length <= 3, all truth tables (3 x 5 symbolic booleans)")
    m.ob("combinators", "a: bool, b: bool, c: bool, op: int", "return combinators(a, b, c, op)", pre=["0 <= op <= 6"], timeout=tmo,
         family="combinators are pointwise boolean operations", bounds="all truth values, 7 operator shapes incl. mixed pattern/checker operands")
    slen = 2 if quick else 3
    m.ob("str_pred", "pi: int, s: str", "return str_pred(pi, s)", pre=["0 <= pi < len(STR_PREDS)", f"len(s) <= {slen}"], timeout=tmo * 2,
         family="string predicates: identifier -> exact match, otherwise full regex match",
         bounds=f"10 patterns; field id symbolic str len<= {slen} (CrossHair regex model; refutations replayed)")
    m.nat("identities", '''
def nat_identities():
    ev, bad = 0, []
    k = len(LOCS)
    for n in range(1, 4):
        import itertools
        for combo in itertools.product(range(k), repeat=n):
            l = list(combo) + [0, 0, 0]
            ev += 1
            if not chk_identities(n, l[0], l[1], l[2]): bad.append({"n": str(n), "l0": str(l[0]), "l1": str(l[1]), "l2": str(l[2])})
    return {"status": "REFUTED" if bad else "CONFIRMED", "cexs": bad[:5], "evaluations": ev,
            "note": "labelled enumeration: documented identities on every stack of depth <= 3 over 11 locations"}

def chk_identities(n, l0, l1, l2):
    return identities(n, l0, l1, l2)
''', timeout=300, family="documented identities and chain semantics on real location stacks (labelled enumeration)",
          bounds="all stacks of depth <= 3 over 11 locations (type / field / generic-parameter locations); 15 identities (incl. private and trailing-underscore field ids); 16 extensions of pattern objects that were already built and used")
    m.nat("type_matrix", NAT, timeout=120, family="class predicates (labelled enumeration)",
          bounds="27 type predicates x 29 location types (incl. generic abstract classes and generic runtime protocols, bare and parametrised) x 2 stack shapes, plus negation")
    me = Module("c10_e2e").pre(SETUP).pre(E2E)
    me.ob("bound_e2e", "a: int, ia: int, ib: int, x: int", "return e2e(a, ia, ib, x)", timeout=tmo,
          family="end-to-end: predicates select the marker loader at the probed locations", bounds="all int field values")
    mm = Module("c10_multi").pre(MULTI)
    mm.ob("multi_predicate_providers", "ci: int, rep: bool, mi: bool, v: int", "return multi(ci, rep, mi, v)", pre=["0 <= ci < 24"], timeout=tmo,
          family="providers built from several predicates (merged with |) serve each predicate on every request, in every order of first use",
          bounds="enum_by_name(EA, EB) + flag_by_member_names(FA, FB) in one retort: 24 orders of first use x first / repeated request x 2 members; a third enum and int stay untouched; "
                 "allow_unlinked_optional / forbid_unlinked_optional with three predicates, asked twice; symbolic int")
    mm.ob("equal_members_across_classes", "ci: int, mi: bool", "return equal_members(ci, mi)", pre=["0 <= ci < NEQ"], timeout=tmo,
          family="one enum_by_name / flag_by_member_names provider serving classes whose members are equal across classes (IntEnum, str enums, IntFlag with the same values)",
          bounds="3 pairs of look-alike classes on one retort, up to 40 orders of first use, every member: dumped by its own names, loaded to its own members")
    return Plan("C10", [m, me, mm], assumptions=["CrossHair's regex model for the fixed pattern list"],
                bounds={"stack depth": "4", "chain length": "3"}, outside=["arbitrary user regexes", "predicate nesting > 2"])
