"""C19 Generated code treats names and keys purely as data (reduced scope, see DESIGN.md 5/C19)."""
import itertools
import random

from vf.gen import Module, Plan
from props.fam_model import SETUP as MODEL_SETUP

CHARS = ["'", '"', "\\", "{", "}", "$", "#", "\n", "\r", "\0", "a", "1"]
FRAGMENTS = ["f'{1}'", "__import__('os')", "{a}", "$x", "{__CANARY__()}", "'+__CANARY__()+'", '"+__CANARY__()+"', "\\'", "\\\\'", "a\nraise SystemExit(3)",
             "a\n    return 1", "${a}", "#}", "{{", "}}", "%s", "%(a)s", "\\N{BULLET}", "\\x41", "\\u0041", "'''", '"""', "k\nreturn {'hijacked': True}",
             "a'] = __CANARY__(); x['", "é", "ключ", " ", "a b", "a.b", "a[0]", "0", "-1", "None", "True"]


def hostile_keys():
    keys = [""]
    for n in (1, 2):
        for combo in itertools.product(CHARS, repeat=n):
            keys.append("".join(combo))
    return keys + FRAGMENTS


IDENTS = ["data", "errors", "extra", "value", "getter", "sentinel", "constructor", "packed_fields", "opt_fields", "result", "key", "loader_a", "a",
          "len", "print", "type", "dict", "set", "list", "str", "int", "isinstance", "object", "class_", "def_", "from_", "import_", "return_", "lambda_",
          "self", "cls", "has_unexpected_error", "has_not_found_error", "known_keys", "required_keys", "e", "r_a", "f_a", "dfl_a", "model_identity",
          "append_trail", "extend_trail", "LoadError", "TypeLoadError", "AggregateLoadError", "CompatExceptionGroup", "CollectionsMapping",
          "CollectionsSequence", "render_trail_as_note", "dumper_a", "trail_element_a", "v", "i", "x", "ctx", "coercer", "src", "dst", "field",
          "é", "ключ", "μ", "ExtraFieldsLoadError", "NoRequiredFieldsLoadError", "saturator", "extractor", "extra_2", "data_2", "loader_data", "r_data",
          "f_data", "dfl_data", "opt_fields_2", "g_loader_a", "closure", "builtins", "__class__name" if False else "class__name"]

HOST_CANARY = '''
import builtins
CANARY = []
def __CANARY__(*a, **k):
    CANARY.append(a)
    return "canary"
builtins.__CANARY__ = __CANARY__
'''

HOST_SETUP = HOST_CANARY + '''

def member_for_key(k1, k2):
    return {"model": "MD", "layout": {"a": (k1,), "b_": ("b",), "c_d": ("p", k2)}, "extra_in": "forbid", "extra_out": "skip", "omit": []}

HOST = []          # (key, member, tree, loaders, dumpers)
BUILD_ERRORS = []
for _k in KEYS:
    _mem = member_for_key(_k, _k + "2")
    try:
        _ld, _dp = {}, {}
        for _s in (True, False):
            for _dt in DT_MODES:
                _r = Retort(recipe=[name_mapping(MD, map={"a": _k, "c_d": ("p", _k + "2")}, extra_in=ExtraForbid())] + STUB_RECIPE, strict_coercion=_s, debug_trail=_dt)
                _ld[(_s, _dt)] = _r.get_loader(MD)
                if _s: _dp[_dt] = _r.get_dumper(MD)
        HOST.append((_k, _mem, build_tree(_mem["layout"]), _ld, _dp))
    except Exception as _e:
        BUILD_ERRORS.append((_k, repr(_e)[:300]))
NK = max(1, len(HOST))

def near_miss(k, sel):
    """unknown keys derived from the hostile key: escaped / unescaped / truncated / extended variants"""
    if sel == 0: return None
    if sel == 1: return k[:-1] if k else "x"
    if sel == 2: return k + k if k else "xx"
    if sel == 3: return repr(k)
    if sel == 4: return k.encode("unicode_escape").decode("ascii")
    return k.replace(chr(92), chr(92) * 2) + "'"

def host_load(ki, p0, p1, p2, v0, v1, v2, nm):
    k, mem, tree, loaders, dumpers = HOST[pick(ki, NK)]
    def mk():
        d = build_data(mem, tree, p0, p1, p2, v0, v1, v2, False, False, False, 0, 0, 0)
        x = near_miss(k, pick(nm, 6))
        if x is not None and x != k and x != "b" and x != "p": d[x] = 1
        return d
    ok = c03_load(mem, "MD", tree, loaders, mk)
    return ok and not CANARY

def host_dump(ki, v0, v1, v2):
    k, mem, tree, loaders, dumpers = HOST[pick(ki, NK)]
    return c03_dump(mem, "MD", tree, dumpers, MD(Stub(v0), Stub(v1), Stub(v2))) and not CANARY
'''

IDENT_SETUP = '''
import dataclasses, keyword
from adaptix.conversion import get_converter
GROUPS = []        # (names, Model, Twin, loaders, dumpers, converter)
BUILD_ERRORS = []
def trimmed(n): return n[:-1] if n.endswith("_") and not n.endswith("__") else n
for _g in range(0, len(IDENTS) - 2, 3):
    _names = IDENTS[_g:_g + 3]
    try:
        _M = dataclasses.make_dataclass("H%d" % _g, [(_names[0], Stub), (_names[1], Stub, dataclasses.field(default=Stub(91))), (_names[2], Stub, dataclasses.field(default=Stub(92)))])
        _T = dataclasses.make_dataclass("T%d" % _g, [(n, Stub) for n in _names])
        _ld, _dp = {}, {}
        for _s in (True, False):
            for _dt in DT_MODES:
                _r = Retort(recipe=STUB_RECIPE, strict_coercion=_s, debug_trail=_dt)
                _ld[(_s, _dt)] = _r.get_loader(_M)
                if _s: _dp[_dt] = _r.get_dumper(_M)
        GROUPS.append((_names, _M, _T, _ld, _dp, get_converter(_M, _T)))
    except Exception as _e:
        BUILD_ERRORS.append((_names, repr(_e)[:300]))
NG = max(1, len(GROUPS))

def ident_case(gi, p1, p2, v0, v1, v2, extra):
    """a model whose field ids coincide with generated identifiers / builtins / keywords-with-underscore behaves like any model"""
    names, M, T, loaders, dumpers, conv = GROUPS[pick(gi, NG)]
    keys = [trimmed(n) for n in names]
    data = {keys[0]: v0}
    if p1: data[keys[1]] = v1
    if p2: data[keys[2]] = v2
    if extra: data["zz"] = 1
    exp_fail = (v0 < 0) or (p1 and v1 < 0) or (p2 and v2 < 0)
    for key, ld in loaders.items():
        o = outcome(ld, dict(data))
        if o[0] == "other_exc": return False
        if exp_fail != (o[0] == "load_error"): return False
        if o[0] == "ok":
            obj = o[2]
            exp = (Stub(v0), Stub(v1) if p1 else Stub(91), Stub(v2) if p2 else Stub(92))
            if tuple(getattr(obj, n) for n in names) != exp: return False
            for dt, dp in dumpers.items():
                if dp(obj) != {keys[0]: exp[0].n, keys[1]: exp[1].n, keys[2]: exp[2].n}: return False
            t = conv(obj)
            if type(t) is not T or tuple(getattr(t, n) for n in names) != exp: return False
    return True
'''

NAMES_SETUP = '''
import dataclasses
from typing import Any
from adaptix.conversion import get_converter
CLASS_NAMES = ["A", "A2", "A\\u00b2", "A-B", "A B", "1A", "A'", 'A"', "A{x}", "A\\\\", "A\\n", "\\u00e9", "A.B", "A[0]", "A$", "def", "A\\u0660", "A\\u2460", "_", "A\\u00aa",
               "data", "ctx", "coercer", "constructor", "errors", "result", "self", "src", "dst", "convert", "model_identity"]
NAMED = []
NAME_ERRORS = []
for _cn in CLASS_NAMES:
    try:
        _M = dataclasses.make_dataclass(_cn, [("a", Stub)])
        _T = dataclasses.make_dataclass(_cn + "T", [("a", Stub)])
        _r = Retort(recipe=STUB_RECIPE)
        NAMED.append((_cn, _M, _r.get_loader(_M), _r.get_dumper(_M), get_converter(_M, _T)))
    except Exception as _e:
        NAME_ERRORS.append((_cn, repr(_e)[:200]))
NN = max(1, len(NAMED))
# converter stubs whose parameters are named like identifiers of the generated function
from adaptix.conversion import impl_converter, link_function
from adaptix import P
@dataclasses.dataclass
class HSrc:
    a: int
@dataclasses.dataclass
class HDst:
    a: int
    coercer: int
    data: int
    ctx: int
    constructor: int
try:
    @impl_converter
    def conv_hostile(src: HSrc, coercer: int, data: int, ctx: int, constructor: int) -> HDst: ...
    def data(src): return src.a + 1          # a linked function whose __name__ is a generated parameter name
    @dataclasses.dataclass
    class HDst2:
        a: int
        z: int
    CONV_FN = get_converter(HSrc, HDst2, recipe=[link_function(data, P[HDst2].z)])
except Exception as _e:
    NAME_ERRORS.append(("conv_hostile", repr(_e)[:200]))
# different classes with the same __name__ at two nesting levels: the generated coerce_A_to_B must not shadow the inner coercer
try:
    _InA = dataclasses.make_dataclass("A", [("x", int)]); _InB = dataclasses.make_dataclass("B", [("x", int)])
    _OutA = dataclasses.make_dataclass("A", [("inner", _InA), ("y", int)]); _OutB = dataclasses.make_dataclass("B", [("inner", _InB), ("y", int)])
    CONV_SAME = get_converter(_OutA, _OutB)
    _r = Retort()
    SAME_LD, SAME_DP = _r.get_loader(_OutA), _r.get_dumper(_OutA)
except Exception as _e:
    NAME_ERRORS.append(("same_name_nested", repr(_e)[:200]))
# user names that coincide with the names the converter generator gives to its own helpers (constant_<n>, func_<n>, accessor_<n>, coercer, ...)
import functools
from decimal import Decimal
from adaptix.conversion import link_constant, link
GEN_NAMES = ["constant_0", "constant_1", "func_0", "func_1", "accessor_0", "coercer", "coercer_1", "_closure_signature", "_stub_function", "_update_wrapper",
             "constructor", "convert", "src", "data", "Decimal", "int", "partial", "constant_0_1"]
GMARK = Decimal("1.5")
@dataclasses.dataclass
class GSrc:
    a: int
def _named_fn(name, k):
    def function(model):
        return model.a + k
    function.__name__ = name; function.__qualname__ = name
    return function
def _plus(k, v): return v + k                      # used through functools.partial: a callable without __name__ (generated name func_<n>)
GEN_CASES = []           # (what, converter, expected(a))
for _gn in GEN_NAMES:
    try:
        # (1) a linked function called like a generated name, next to a non-literal constant, a nameless partial and a second function of the same name
        _D1 = dataclasses.make_dataclass("GDst", [("a", int), ("b", int), ("c", Decimal), ("d", int), ("e", int), ("f", Decimal)])
        for _order in (0, 1):
            _rec = [link_function(_named_fn(_gn, 100), P[_D1].b), link_constant(P[_D1].c, value=GMARK), link(P[GSrc].a, P[_D1].d, coercer=functools.partial(_plus, 7)),
                    link_function(_named_fn(_gn, 200), P[_D1].e), link_constant(P[_D1].f, factory=functools.partial(Decimal, "2.5"))]
            if _order: _rec = _rec[::-1]
            GEN_CASES.append((("fn", _gn, _order), get_converter(GSrc, _D1, recipe=_rec), lambda a, D=_D1: D(a, a + 100, GMARK, a + 7, a + 200, Decimal("2.5"))))
        # (2) the destination (and source) model called like a generated name
        _S2 = dataclasses.make_dataclass(_gn, [("a", int)])
        _D2 = dataclasses.make_dataclass(_gn, [("a", int), ("c", Decimal), ("d", int)])
        GEN_CASES.append((("model", _gn, 0), get_converter(_S2, _D2, recipe=[link_constant(P[_D2].c, value=GMARK), link(P[_S2].a, P[_D2].d, coercer=functools.partial(_plus, 7))]),
                          lambda a, D=_D2: D(a, GMARK, a + 7)))
    except Exception as _e:
        NAME_ERRORS.append(("gen_name", _gn, repr(_e)[:200]))
# two linked functions whose names differ by the prefix the closure compiler gives to captured globals (g_)
for _n1, _n2 in (("foo", "g_foo"), ("g_foo", "foo"), ("g_g_x", "g_x"), ("x", "g_g_x"), ("constant_0", "g_constant_0"), ("g_coercer", "coercer"), ("g_func_0", "func_0")):
    try:
        _D3 = dataclasses.make_dataclass("GDst3", [("a", int), ("b", int), ("c", Decimal), ("e", int)])
        GEN_CASES.append((("fn", (_n1, _n2), 0), get_converter(GSrc, _D3, recipe=[link_function(_named_fn(_n1, 100), P[_D3].b), link_constant(P[_D3].c, value=GMARK),
                                                                                     link_function(_named_fn(_n2, 200), P[_D3].e)]),
                          lambda a, D=_D3: D(a, a + 100, GMARK, a + 200)))
    except Exception as _e:
        NAME_ERRORS.append(("gen_name_pair", _n1, _n2, repr(_e)[:200]))
NG = max(1, len(GEN_CASES))
def gen_names(gi, a):
    what, conv, exp = GEN_CASES[pick(gi, NG)]
    if what[0] == "fn": out = conv(GSrc(a))
    else:
        import inspect
        S = list(inspect.signature(conv).parameters.values())[0].annotation
        out = conv(S(a))
    return out == exp(a)

# defaults of extra converter parameters are data: never rendered through their repr, the very objects are the defaults of the result
import builtins, inspect
DCANARY = []
def __DCANARY__(*a, **k):
    DCANARY.append(a); return 0
builtins.__DCANARY__ = __DCANARY__
class _Hostile:
    def __init__(self, text): self.text = text
    def __repr__(self): return self.text
    def __eq__(self, o): return self is o
    def __hash__(self): return 1
class _Sentinel: pass
DEF_POOL = (5, Decimal("1.5"), _Sentinel(), [1], _Hostile("__DCANARY__()"), _Hostile("0)): pass" + chr(10) + "__DCANARY__(" ), _Hostile("x"), _Hostile("src"), _Hostile(""),
            float("inf"), float("nan"), ..., GMARK, (1, Decimal(2)), _named_fn("f", 1), int)
@dataclasses.dataclass
class DefD:
    a: int
    c: Any
    d: Any
DEF_CONV = []
for _i, _dv in enumerate(DEF_POOL):
    try:
        def _stub(src: GSrc, c: Any = _dv, *, d: Any = _dv) -> DefD: ...
        DEF_CONV.append(("ok", impl_converter(_stub), _stub))
    except Exception as _e:
        DEF_CONV.append(("error", repr(_e)[:200], None)); NAME_ERRORS.append(("param_default", _i, type(_e).__name__, repr(_e)[:160]))
ND = len(DEF_POOL)
def param_defaults(di, a, given):
    st, conv, stub = DEF_CONV[pick(di, ND)]
    if st != "ok" or DCANARY: return False
    dv = DEF_POOL[pick(di, ND)]
    out = conv(GSrc(a))
    def is_default(v): return v is dv or (type(v) is type(dv) and (v == dv or (v != v and dv != dv)))            # the default object itself, or an equal value of the same type
    if type(out) is not DefD or out.a != a or not is_default(out.c) or not is_default(out.d): return False
    out = conv(GSrc(a), given, d=given)
    if out.c is not given or out.d is not given: return False
    sig, ssig = inspect.signature(conv), inspect.signature(stub)
    same_sig = (list(sig.parameters) == list(ssig.parameters) and sig.return_annotation == ssig.return_annotation and
                all(p.kind == q.kind and p.annotation == q.annotation and p.default is q.default for p, q in zip(sig.parameters.values(), ssig.parameters.values())))
    return same_sig and sig.parameters["c"].default is dv and not DCANARY

def same_name_nested(x, y):
    out = CONV_SAME(_OutA(_InA(x), y))
    if type(out) is not _OutB or type(out.inner) is not _InB or (out.inner.x, out.y) != (x, y): return False
    obj = SAME_LD({"inner": {"x": x}, "y": y})
    return type(obj.inner) is _InA and SAME_DP(obj) == {"inner": {"x": x}, "y": y}

def hostile_params(a, b, c, d, e):
    return conv_hostile(HSrc(a), b, c, d, e) == HDst(a, b, c, d, e) and CONV_FN(HSrc(a)) == HDst2(a, a + 1)
def named_case(ni, v):
    cn, M, ld, dp, conv = NAMED[pick(ni, NN)]
    o = outcome(ld, {"a": v})
    if (v < 0) != (o[0] == "load_error"): return False
    if o[0] == "ok":
        if o[2].a != Stub(v) or dp(o[2]) != {"a": v} or conv(o[2]).a != Stub(v): return False
    return True
'''

KWIDS_SETUP = '''
import dataclasses, keyword
from typing import TypedDict
from adaptix import P
from adaptix.conversion import get_converter, impl_converter, link, link_function
KW_ERRORS = []
# field ids that are legal but cannot be written as they are in source code: keywords, and ids that are not in NFKC form
# (the compiler reads identifiers in NFKC form: the ligature U+FB01 and 'fi' would be one variable)
LIG, MICRO, KELVIN = chr(0xFB01), chr(0xB5), chr(0x212A)
ID_GROUPS = [("class", "from", "a"), ("def", "x", "return"), (LIG, "fi", "a"), ("fi", LIG, "f"), (MICRO, chr(0x3BC), "m"), (KELVIN, "K", "k"),
             ("lambda", LIG, "None"), ("a" + chr(0xAA), "aa", "a"), (chr(0x2160), "I", "i"), ("True", "False", "import")]
KWG = []       # (names, TD, Twin dataclass with plain names, loaders, dumpers, conv TD->TD2, conv DC->TD, conv TD->DC)
@dataclasses.dataclass
class Plain3:
    p0: Stub
    p1: Stub
    p2: Stub
for _gi, _names in enumerate(ID_GROUPS):
    try:
        _TD = TypedDict("KwTD%d" % _gi, {n: Stub for n in _names})
        _TD2 = TypedDict("KwTDb%d" % _gi, {n: Stub for n in _names})
        _ld, _dp = {}, {}
        for _s in (True, False):
            for _dt in DT_MODES:
                _r = Retort(recipe=STUB_RECIPE, strict_coercion=_s, debug_trail=_dt)
                _ld[(_s, _dt)] = _r.get_loader(_TD)
                if _s: _dp[_dt] = _r.get_dumper(_TD)
        _c1 = get_converter(_TD, _TD2)
        _c2 = get_converter(Plain3, _TD, recipe=[link(P[Plain3]["p%d" % i], P[_TD][n]) for i, n in enumerate(_names)])
        _c3 = get_converter(_TD, Plain3, recipe=[link(P[_TD][n], P[Plain3]["p%d" % i]) for i, n in enumerate(_names)])
        KWG.append((_names, _TD, _ld, _dp, _c1, _c2, _c3))
    except Exception as _e:
        KW_ERRORS.append(("ids", _names, type(_e).__name__, repr(_e)[:200]))
NKW = max(1, len(KWG))
try:
    from pydantic import create_model
    PYD = []
    for _n in ("class", "from", "import"):
        _M = create_model("PydKw_" + _n, **{_n: (int, ...), "b": (int, 7)})
        _r = Retort()
        PYD.append((_n, _M, _r.get_loader(_M), _r.get_dumper(_M), get_converter(_M, TypedDict("PydTD_" + _n, {_n: int, "b": int}))))
except Exception as _e:
    KW_ERRORS.append(("pydantic", type(_e).__name__, repr(_e)[:200]))
    PYD = []
NPYD = max(1, len(PYD))

def kw_ids(gi, v0, v1, v2, present2):
    names, TD, loaders, dumpers, c1, c2, c3 = KWG[pick(gi, NKW)]
    vals = (v0, v1, v2)
    data = {n: v for n, v in zip(names, vals)}
    if not present2: del data[names[2]]
    exp_fail = (not present2) or v0 < 0 or v1 < 0 or v2 < 0
    for key, ld in loaders.items():
        o = outcome(ld, dict(data))
        if o[0] == "other_exc": return False
        if exp_fail != (o[0] == "load_error"): return False
        if o[0] == "ok":
            obj = o[2]
            if obj != {n: Stub(v) for n, v in zip(names, vals)}: return False
            for dt, dp in dumpers.items():
                if dp(obj) != data: return False
            if c1(obj) != obj: return False
            if c2(Plain3(Stub(v0), Stub(v1), Stub(v2))) != obj: return False
            if c3(obj) != Plain3(Stub(v0), Stub(v1), Stub(v2)): return False
    return True

def kw_pyd(ni, a, b, has_b):
    n, M, ld, dp, conv = PYD[pick(ni, NPYD)]
    a, b = realize(a), realize(b)
    data = {n: a}
    if has_b: data["b"] = b
    obj = ld(data)
    eb = b if has_b else 7
    if getattr(obj, n) != a or obj.b != eb: return False
    return dp(obj) == {n: a, "b": eb} and conv(obj) == {n: a, "b": eb}

# names of converters are data: text, keywords, names of the wrapper's own constants, parameter names
CONV_NAMES = ["_closure_signature", "_update_wrapper", "_stub_function", "weird name", "class", "def", "a'b", 'a"b', "a" + chr(92), "f(src): return __CANARY__()" + chr(10) + "    def g",
              "", "1", "src", "coercer", "x", "convert", "{__CANARY__()}", "a.b", "a[0]", LIG, "None", "__CANARY__", "print", "a b", chr(10), "#", "a#b", "lambda", "ctx"]
@dataclasses.dataclass
class CnS:
    a: int
@dataclasses.dataclass
class CnD:
    a: int
    x: int
CONVS = []
for _nm in CONV_NAMES:
    try:
        _g = get_converter(CnS, CnS, name=_nm)
        def _stub(src: CnS, x: int) -> CnD: ...
        _stub.__name__ = _nm
        _i = impl_converter(_stub)
        def _lf(m): return m.a + 3
        _lf.__name__ = _nm
        _l = get_converter(CnS, CnD, recipe=[link_function(_lf, P[CnD].x)])
        _Dn = dataclasses.dataclass(type(_nm, (), {"__annotations__": {"a": int}}))
        _d = get_converter(CnS, _Dn)
        CONVS.append((_nm, _g, _i, _l, _d, _Dn))
    except Exception as _e:
        KW_ERRORS.append(("conv_name", _nm, type(_e).__name__, repr(_e)[:200]))
NCN = max(1, len(CONVS))
def conv_names(ni, a, x):
    nm, g, i, l, d, Dn = CONVS[pick(ni, NCN)]
    if g(CnS(a)) != CnS(a) or g.__name__ != nm: return False
    if i(CnS(a), x) != CnD(a, x) or i.__name__ != nm: return False
    if l(CnS(a)) != CnD(a, a + 3): return False
    out = d(CnS(a))
    return type(out) is Dn and out.a == a and not CANARY
'''

KNAME = '''
def smt_sanitizer_alphabet():
    """K-name/1: every character the sanitizer keeps (first-character rule, translate map and _BAD_CHARS read from the live class) is an
    identifier-continue character of the running interpreter:  exists c <= 0x10FFFF: kept(t(c)) and not idcont(t(c))  must be unsat"""
    import re, sys, time, z3, inspect
    from adaptix._internal.code_tools.name_sanitizer import BuiltinNameSanitizer
    san = BuiltinNameSanitizer()
    t0 = time.time()
    def ranges(pred):
        out, start = [], None
        for c in range(0x110000):
            if pred(c):
                if start is None: start = c
            elif start is not None:
                out.append((start, c - 1)); start = None
        if start is not None: out.append((start, 0x10FFFF))
        return out
    # kept(c): the sanitizer's own behaviour on a one-character tail, taken from the real method (regenerated every run)
    def kept_chars(c):
        ch = chr(c)
        if 0xD800 <= c <= 0xDFFF: return ""
        return san.sanitize("a" + ch)[1:]
    bad_ranges = ranges(lambda c: any(not ("a" + o).isidentifier() for o in kept_chars(c)))
    kept_ranges = ranges(lambda c: kept_chars(c) != "")
    id_ranges = ranges(lambda c: ("a" + chr(c)).isidentifier() if not 0xD800 <= c <= 0xDFFF else False)
    c = z3.Int("c")
    def in_ranges(rs): return z3.Or([z3.And(c >= a, c <= b) for a, b in rs]) if rs else z3.BoolVal(False)
    s = z3.Solver()
    s.add(c >= 0, c <= 0x10FFFF)
    # bad(c): the real sanitizer, applied to a name containing chr(c), emits a character that is not an identifier character
    s.add(in_ranges(bad_ranges))
    # translation is the identity on everything it keeps except '.' and '[' (both map to '_', an identifier character): checked here
    tr_ok = san.sanitize("a.")[1:] == "_" and san.sanitize("a[")[1:] == "_"
    r = s.check()
    rec = {"queries": 1, "solver_queries": 1, "solver_s": round(time.time() - t0, 3), "evaluations": 0x110000,
           "functions_encoded": ["code_tools/name_sanitizer.py:BuiltinNameSanitizer.sanitize"], "backend": "z3 " + z3.get_version_string()}
    if str(r) == "unsat" and tr_ok and not bad_ranges:
        rec["status"] = "CONFIRMED"
    elif str(r) == "sat":
        w = s.model()[c].as_long()
        rec.update(status="REFUTED", cex={"c": str(w)})
    else:
        rec.update(status="UNKNOWN", detail=str(r))
    return rec

def chk_sanitizer_alphabet(c):
    """native replay: a model whose name contains the character must still get a working loader"""
    import dataclasses
    M = dataclasses.make_dataclass("A" + chr(c), [("a", int)])
    try:
        return Retort().load({"a": 1}, M).a == 1
    except SyntaxError:
        return False

def smt_prefix_collision():
    """K-name/2: a generated variable name prefix.id (id an arbitrary identifier) never equals a fixed name of the generated function,
    a builtin or a keyword, and two different prefixes never produce the same name from (possibly different) ids.
    z3 string query over id in [A-Za-z_][A-Za-z0-9_]*; expected unsat"""
    import time, z3, keyword, builtins, re, inspect
    import adaptix._internal.morphing.model.loader_gen as lg, adaptix._internal.morphing.model.dumper_gen as dg
    t0 = time.time()
    # prefixes and fixed names harvested from the generator sources of the current tree
    src = inspect.getsource(lg) + inspect.getsource(dg)
    prefixes = sorted(set(re.findall(r'f"((?:[a-z]+_)+)\\{', src)) | {"loader_", "dumper_", "r_", "f_", "dfl_", "trail_element_", "accessor_getter_"})
    fixed = sorted(set(re.findall(r'add_constant\\("([A-Za-z_]+)"', src)) | {"data", "errors", "has_unexpected_error", "e", "value", "result", "opt_fields", "sentinel"})
    ident = z3.Concat(z3.Union(z3.Range("a", "z"), z3.Range("A", "Z"), z3.Re("_")), z3.Star(z3.Union(z3.Range("a", "z"), z3.Range("A", "Z"), z3.Range("0", "9"), z3.Re("_"))))
    i1, i2 = z3.String("id1"), z3.String("id2")
    queries, hits = 0, []
    s = z3.Solver()
    s.add(z3.InRe(i1, ident), z3.InRe(i2, ident))
    for p in prefixes:
        for n in fixed + list(keyword.kwlist):
            if n.startswith(p) and len(n) > len(p):
                continue          # a fixed name that itself is prefix+identifier is reported by the e2e ident obligations (namespace refuses duplicates)
            s.push(); s.add(z3.Concat(z3.StringVal(p), i1) == z3.StringVal(n)); queries += 1
            if str(s.check()) != "unsat": hits.append((p, n, str(s.model()[i1])))
            s.pop()
    rec = {"queries": queries, "solver_queries": queries, "solver_s": round(time.time() - t0, 3), "evaluations": queries,
           "functions_encoded": ["morphing/model/loader_gen.py (prefix harvest)", "morphing/model/dumper_gen.py (prefix harvest)"],
           "backend": "z3 " + z3.get_version_string(), "note": "prefixes=%r" % (prefixes,)}
    rec["status"] = "CONFIRMED" if not hits else "UNKNOWN"
    if hits: rec["detail"] = "possible collisions (inconclusive, the namespace may still refuse them): %r" % (hits[:5],)
    return rec

def chk_prefix_collision():
    return True
'''


def build(tier, seed):
    quick = tier == "quick"
    tmo = 120 if quick else 300
    keys = hostile_keys()
    rnd = random.Random(seed)
    if quick:
        base = [k for k in keys if len(k) <= 1] + FRAGMENTS
        rest = [k for k in keys if k not in base]
        keys = base + rnd.sample(rest, 24)
    mods = []
    chunk = 8
    for ci in range(0, len(keys), chunk):
        ks = keys[ci:ci + chunk]
        m = Module(f"c19_keys_{ci // chunk}").pre(MODEL_SETUP).pre(f"KEYS = {ks!r}\n").pre(HOST_SETUP)
        fam = "hostile mapped keys as additional C03 programs (enumerated), data symbolic"
        m.ob(f"keys_build_{ci // chunk}", "x: int", "return not BUILD_ERRORS and not CANARY", timeout=60, family=fam,
             bounds=f"generation of 6 loaders + 3 dumpers for each of the keys {ks!r}")
        m.ob(f"keys_load_{ci // chunk}", "ki: int, p0: bool, p1: bool, p2: bool, v0: int, v1: int, v2: int, nm: int",
             "return host_load(ki, p0, p1, p2, v0, v1, v2, nm)",
             pre=["0 <= ki < NK", "nm == 0", "v0 >= -1 and v1 >= -1 and v2 >= -1"], timeout=tmo, family=fam,
             bounds="per key: presence bits, stub codes (payload / LoadError); 6 modes; canary never evaluated")
        m.ob(f"keys_extra_{ci // chunk}", "ki: int, p0: bool, p1: bool, p2: bool, v0: int, v1: int, v2: int, nm: int",
             "return host_load(ki, p0, p1, p2, v0, v1, v2, nm)",
             pre=["0 <= ki < NK", "1 <= nm <= 5", "p0 and p1 and p2", "v0 >= 0 and v1 >= 0 and v2 >= 0"], timeout=tmo, family=fam,
             bounds="per key: one near-miss unknown key (truncated / doubled / repr / escaped / re-quoted variant of the hostile key) under ExtraForbid; 6 modes")
        m.ob(f"keys_dump_{ci // chunk}", "ki: int, v0: int, v1: int, v2: int", "return host_dump(ki, v0, v1, v2)", pre=["0 <= ki < NK"], timeout=tmo,
             family=fam, bounds="per key: symbolic payloads, 3 debug modes")
        mods.append(m)
    mi = Module("c19_idents").pre(MODEL_SETUP).pre(f"IDENTS = {IDENTS!r}\n").pre(IDENT_SETUP)
    mi.ob("idents_build", "x: int", "return not BUILD_ERRORS", timeout=60, family="hostile field ids", bounds=f"{len(IDENTS)} identifiers in groups of 3: loaders, dumpers, converters")
    mi.ob("idents_case", "gi: int, p1: bool, p2: bool, v0: int, v1: int, v2: int, extra: bool", "return ident_case(gi, p1, p2, v0, v1, v2, extra)",
          pre=["0 <= gi < NG", "v0 >= -1 and v1 >= -1 and v2 >= -1"], timeout=tmo * 2, family="hostile field ids",
          bounds="field ids equal to generated identifiers, builtins, keywords with trailing underscore, prefixed twins (loader_a next to a), non-ASCII identifiers; presence bits, stub codes; loader, dumper and converter")
    mn = Module("c19_names").pre(MODEL_SETUP).pre(NAMES_SETUP)
    mn.ob("names_build", "x: int", "return not NAME_ERRORS", timeout=60, family="model / function names with arbitrary characters",
          bounds="20 class names incl. quotes, braces, newline, superscript and other non-identifier word characters")
    mn.ob("names_case", "ni: int, v: int", "return named_case(ni, v)", pre=["0 <= ni < NN", "v >= -1"], timeout=tmo,
          family="model / function names with arbitrary characters", bounds="loader, dumper, converter of each named model; symbolic payload")
    mn.ob("names_hostile_params", "a: int, b: int, c: int, d: int, e: int", "return hostile_params(a, b, c, d, e)", timeout=tmo,
          family="converter stub parameters / linked functions named like generated identifiers", bounds="parameters coercer, data, ctx, constructor; function named data; symbolic ints")
    mn.ob("names_generated_helpers", "gi: int, a: int", "return gen_names(gi, a)", pre=["0 <= gi < NG"], timeout=tmo,
          family="user function / model names equal to the names the converter generator gives its own helpers",
          bounds="18 names (constant_<n>, func_<n>, accessor_<n>, coercer, _closure_signature, ...) as the name of two linked functions (next to a non-literal constant, "
                 "a nameless partial and a constant factory, both recipe orders) and as the name of source and destination model; 7 pairs of function names that differ by the "
                 "prefix of captured globals (foo / g_foo); symbolic int")
    mn.ob("names_param_defaults", "di: int, a: int, given: int", "return param_defaults(di, a, given)", pre=["0 <= di < ND"], timeout=tmo,
          family="defaults of extra converter parameters are data (never rendered through repr, never executed); impl_converter keeps the stub's signature",
          bounds="16 default values (literal, Decimal, sentinel object, list, objects whose repr is a call / breaks out of the def line / shadows a parameter, inf, nan, Ellipsis, "
                 "tuple with a Decimal, a function, a class) for a positional and a keyword-only parameter; symbolic ints")
    mn.ob("names_same_name_nested", "x: int, y: int", "return same_name_nested(x, y)", timeout=tmo,
          family="different classes sharing one __name__ at two nesting levels (converter, loader, dumper)", bounds="symbolic ints")
    mw = Module("c19_kwids").pre(MODEL_SETUP).pre(HOST_CANARY).pre(KWIDS_SETUP)
    fam_kw = "field ids that are keywords or not in NFKC form (TypedDict keys, pydantic fields); converter / function / class names as data"
    mw.ob("kwids_build", "x: int", "return not KW_ERRORS and not CANARY", timeout=60, family=fam_kw,
          bounds="10 groups of 3 TypedDict keys (keywords; pairs that differ only by NFKC form: U+FB01/fi, U+00B5/U+03BC, U+212A/K, U+00AA/a, U+2160/I): 6 loaders, 3 dumpers, "
                 "3 converters each; 3 pydantic models with a keyword field; 29 converter names x (get_converter name=, impl_converter stub, linked function, destination class)")
    mw.ob("kwids_case", "gi: int, v0: int, v1: int, v2: int, present2: bool", "return kw_ids(gi, v0, v1, v2, present2)",
          pre=["0 <= gi < NKW", "v0 >= -1 and v1 >= -1 and v2 >= -1"], timeout=tmo * 2, family=fam_kw,
          bounds="per group: stub codes (payload / LoadError), third key present or absent; 6 loaders, 3 dumpers, TypedDict -> TypedDict, dataclass -> TypedDict, TypedDict -> dataclass")
    mw.ob("kwids_pydantic", "ni: int, a: int, b: int, has_b: bool", "return kw_pyd(ni, a, b, has_b)", pre=["0 <= ni < NPYD", "-2 <= a <= 2 and -2 <= b <= 2"], timeout=tmo, family=fam_kw,
          bounds="keyword field + defaulted field; ints realised before pydantic-core (solver-chosen samples in [-2, 2]); loader, dumper, converter into a TypedDict")
    mw.ob("conv_names", "ni: int, a: int, x: int", "return conv_names(ni, a, x)", pre=["0 <= ni < NCN"], timeout=tmo, family=fam_kw,
          bounds="29 names: the converter works, keeps the requested __name__, canary never evaluated; symbolic ints")
    mk = Module("c19_kname").pre("from adaptix import Retort\n")
    mk.smt("sanitizer_alphabet", KNAME, timeout=300, family="K-name/1 (z3): sanitizer output alphabet",
           bounds="all code points <= 0x10FFFF; tables regenerated from the live BuiltinNameSanitizer and the running interpreter")
    mk.obs.append(type(mk.obs[0])(name="prefix_collision", module=mk.key, kind="smt", timeout=300, family="K-name/2 (z3 strings): prefix collisions",
                                  bounds="prefixes harvested from loader_gen/dumper_gen x fixed names + keywords; id in [A-Za-z_][A-Za-z0-9_]*"))
    # parameter names that differ from the field ids (attrs private attributes, alias=): the constructor-call obligations of C08
    from props.C08 import build as build_c08
    pn = []
    for m08 in build_c08(tier, seed).modules:
        if m08.key == "c08_e2e":
            m08.obs = [o for o in m08.obs if o.name in ("takes_self_param_names", "param_name_vs_field_id")]
            pn.append(m08)
    return Plan("C19", mods + [mi, mn, mw, mk] + pn,
                assumptions=["the string quantifier cannot cross compile(): hostile keys / ids / names are enumerated as extra programs, data is symbolic",
                             "a canary function in builtins records any evaluation of injected text"],
                bounds={"keys": f"{len(keys)} of {len(hostile_keys())}", "identifiers": str(len(IDENTS))},
                outside=["arbitrary keys outside the list", "NFKC-unnormalised identifiers other than the listed pairs", "'no interpolation site forgets !r' as a universal statement"])
