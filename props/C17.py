"""C17 All supported model kinds behave the same for the same logical model."""
from vf.gen import Module, Plan

SETUP = '''
import dataclasses, typing, attr
from typing import List, Optional, NamedTuple, TypedDict, NotRequired
import pydantic
from sqlalchemy.orm import DeclarativeBase, Mapped, mapped_column
from adaptix import Retort, name_mapping, NameStyle, ExtraForbid
from adaptix.conversion import get_converter, allow_unlinked_optional

# one logical model: a: int (required), b_c: str = "x", n: Optional[int] = None
@dataclasses.dataclass
class KDc:
    a: int
    b_c: str = "x"
    n: Optional[int] = None
class KNt(NamedTuple):
    a: int
    b_c: str = "x"
    n: Optional[int] = None
class KTd(TypedDict):
    a: int
    b_c: NotRequired[str]
    n: NotRequired[Optional[int]]
@attr.s(auto_attribs=True)
class KAt:
    a: int
    b_c: str = "x"
    n: Optional[int] = None
class KPy(pydantic.BaseModel):
    a: int
    b_c: str = "x"
    n: Optional[int] = None
class _Base(DeclarativeBase): pass
class KSa(_Base):
    __tablename__ = "k"
    a: Mapped[int] = mapped_column(primary_key=True, autoincrement=False)
    b_c: Mapped[str] = mapped_column(default="x")
    n: Mapped[Optional[int]] = mapped_column(default=None)
PURE = {"dataclass": KDc, "namedtuple": KNt, "typeddict": KTd, "attrs": KAt}
KINDS = dict(PURE); KINDS.update({"pydantic": KPy, "sqlalchemy": KSa})
RECIPES = {
    "plain": lambda K: [],
    "camel_forbid": lambda K: [name_mapping(K, name_style=NameStyle.CAMEL, extra_in=ExtraForbid())],
    "map_nested": lambda K: [name_mapping(K, map={"a": ("p", "q"), "n": "nn"})],
    "omit": lambda K: [name_mapping(K, omit_default=True)],
}
LD, DP, ERR = {}, {}, []
for _k, _K in KINDS.items():
    for _rn, _mk in RECIPES.items():
        for _s in (True, False):
            try:
                _r = Retort(recipe=_mk(_K), strict_coercion=_s)
                LD[(_k, _rn, _s)] = _r.get_loader(_K)
                DP[(_k, _rn, _s)] = _r.get_dumper(_K)
            except Exception as _e:
                ERR.append((_k, _rn, _s, repr(_e)[:200]))

# second logical model: a default factory without a literal form between other fields
def make_tags(): return ["new"]
@dataclasses.dataclass
class FDc:
    id: int
    tags: list = dataclasses.field(default_factory=make_tags)
    level: int = 1
    extra: set = dataclasses.field(default_factory=set)
    last: int = 2
@attr.s(auto_attribs=True)
class FAt:
    id: int
    tags: list = attr.Factory(make_tags)
    level: int = 1
    extra: set = attr.Factory(set)
    last: int = 2
class FPy(pydantic.BaseModel):
    id: int
    tags: list = pydantic.Field(default_factory=make_tags)
    level: int = 1
    extra: set = pydantic.Field(default_factory=set)
    last: int = 2
FKINDS = {"dataclass": FDc, "attrs": FAt, "pydantic": FPy}
FLD = {(k, s): Retort(strict_coercion=s).get_loader(K) for k, K in FKINDS.items() for s in (True, False)}
def factory_model(pt, pl, pe, pa, i, lv, la, real):
    """fields after a factory-defaulted field keep their slot in every kind"""
    for strict in (True, False):
        base = None
        for k in (("dataclass", "attrs", "pydantic") if real else ("dataclass", "attrs")):
            d = {"id": i}
            if pt: d["tags"] = ["t"]
            if pl: d["level"] = lv
            if pe: d["extra"] = [5]
            if pa: d["last"] = la
            if real: d = realize(d)
            o = outcome(FLD[(k, strict)], d)
            if o[0] != "ok": return False
            obj = o[2]
            view = (obj.id, obj.tags, obj.level, obj.extra, obj.last)
            exp = (i, ["t"] if pt else ["new"], lv if pl else 1, {5} if pe else set(), la if pa else 2)
            if view != exp: return False
    return True

def fields_of(kind, obj):
    """field-wise view of an object of any kind (absent optional TypedDict keys and SQLAlchemy column defaults count as the default)"""
    if kind == "typeddict":
        return (obj["a"], obj.get("b_c", "x"), obj.get("n", None))
    b = obj.b_c
    if kind == "sqlalchemy" and b is None: b = "x"          # column defaults are applied on flush, not in the constructor
    return (obj.a, b, obj.n)

KEYS = {"plain": ("a", "b_c", "n"), "camel_forbid": ("a", "bC", "n"), "map_nested": None, "omit": ("a", "b_c", "n")}
def mk_data(rn, pa, pb, pn, va, vb, vn, extra):
    if rn == "map_nested":
        d = {}
        if pa: d["p"] = {"q": va}
        if pb: d["b_c"] = vb
        if pn: d["nn"] = vn
    else:
        ka, kb, kn = KEYS[rn]
        d = {}
        if pa: d[ka] = va
        if pb: d[kb] = vb
        if pn: d[kn] = vn
    if extra: d["zz"] = 1
    return d

def atom(sel, i, s):
    if sel == 0: return i
    if sel == 1: return s
    if sel == 2: return None
    if sel == 3: return i > 0
    return [7]

def same_err(e1, e2):
    """same multiset of (trail, error class) (no repr(): CrossHair models it as a symbolic string)"""
    l1 = [(t, type(e)) for t, e in leaves(e1)]
    l2 = [(t, type(e)) for t, e in leaves(e2)]
    if len(l1) != len(l2): return False
    for x in l1:
        if sum(1 for y in l1 if y == x) != sum(1 for y in l2 if y == x): return False
    return True

def one_bad(f, kind):
    """kinds of the three fields: valid ones (int, str, None) except field f, which gets `kind`"""
    ks = [0, 1, 2]
    ks[f] = kind
    return ks

def kinds_load(rn, kinds, pa, pb, pn, sa, sb, sn, i, s, extra, real, stricts=(True, False)):
    """every kind loads the same input to field-wise equal objects and reports the same errors (classes and trails)"""
    data_of = lambda: mk_data(rn, pa, pb, pn, atom(sa, i, s), atom(sb, i + 1, s), atom(sn, i + 2, s), extra)
    for strict in stricts:
        base = None
        for k in kinds:
            d = data_of()
            if real: d = realize(d)
            o = outcome(LD[(k, rn, strict)], d)
            if o[0] == "other_exc": return False
            view = ("ok", fields_of(k, o[2])) if o[0] == "ok" else ("err", o[2])
            if base is None: base = view; continue
            if view[0] != base[0]: return False
            if view[0] == "ok":
                if view[1] != base[1]: return False
            elif not same_err(view[1], base[1]): return False
    return True

def mk_obj(kind, a, b, n):
    K = KINDS[kind]
    if kind == "typeddict": return {"a": a, "b_c": b, "n": n}
    return K(a=a, b_c=b, n=n)

EXT_POOL_A = (0, 1, -5)
EXT_POOL_B = ("", "x", "yz")
EXT = {"pydantic", "sqlalchemy"}
def kinds_dump_ext(rn, kinds, a, b, isnone, n):
    return kinds_dump(rn, kinds, EXT_POOL_A[pick(a, 3)], EXT_POOL_B[pick(b, 3)], isnone, EXT_POOL_A[pick(n, 3)])
def kinds_convert_ext(a, b, isnone, n):
    return kinds_convert(EXT_POOL_A[pick(a, 3)], EXT_POOL_B[pick(b, 3)], isnone, EXT_POOL_A[pick(n, 3)], True)

def kinds_dump(rn, kinds, a, b, isnone, n):
    """field-wise equal objects dump to equal data"""
    nv = None if isnone else n
    base = None
    for k in kinds:
        r = run(DP[(k, rn, True)], mk_obj(k, a, b, nv))
        if not r[0]: return False
        if base is None: base = r[1]; continue
        if r[1] != base: return False
    return True

# dumping a malformed object (a nested TypedDict without its required key, a union field holding a value of no member class): every kind fails
# alike, in every debug mode
import datetime as _dtm
class BInner(TypedDict):
    x: int
@dataclasses.dataclass
class BDc:
    a: int
    inner: Optional[BInner] = None
    tag: typing.Union[int, _dtm.date] = 0
class BNt(NamedTuple):
    a: int
    inner: Optional[BInner] = None
    tag: typing.Union[int, _dtm.date] = 0
class BTd(TypedDict):
    a: int
    inner: NotRequired[Optional[BInner]]
    tag: NotRequired[typing.Union[int, _dtm.date]]
@attr.s(auto_attribs=True)
class BAt:
    a: int
    inner: Optional[BInner] = None
    tag: typing.Union[int, _dtm.date] = 0
BKINDS = {"dataclass": BDc, "namedtuple": BNt, "typeddict": BTd, "attrs": BAt}
DPM = {}
for _k, _K in BKINDS.items():
    for _dt in DT_MODES:
        try: DPM[(_k, _dt)] = Retort(debug_trail=_dt).get_dumper(_K)
        except Exception as _e: ERR.append(("dpm", _k, repr(_e)[:200]))
BAD_INNER = (None, {"x": 1}, {}, {"y": 1})
BAD_TAG = (0, _dtm.date(2024, 1, 2), "s", 1.5, None)
def kinds_dump_bad(ii, ti, a):
    inner, tag = BAD_INNER[pick(ii, 4)], BAD_TAG[pick(ti, 5)]
    base = None
    for k, K in BKINDS.items():
        for dt in DT_MODES:
            obj = {"a": a, "inner": inner, "tag": tag} if k == "typeddict" else K(a, inner, tag)
            r = run(DPM[(k, dt)], obj)
            sig = ("ok", r[1]) if r[0] else ("err",)
            if base is None: base = sig
            elif sig[0] != base[0] or (sig[0] == "ok" and sig[1] != base[1]): return False
    return True

# ---- a logical model whose FIRST processed field is optional with a non-None default: explicit None is a value, not an omission
class OFPy(pydantic.BaseModel):
    label: Optional[str] = "unnamed"
    size: int
class OFTd(TypedDict):
    label: NotRequired[Optional[str]]           # TypedDict fields are processed in sorted order: label < size
    size: int
class OFPl:
    def __init__(self, label: Optional[str] = "unnamed", *, size: int): self.label, self.size = label, size
@dataclasses.dataclass(kw_only=True)
class OFDc:
    label: Optional[str] = "unnamed"
    size: int
@attr.s(auto_attribs=True, kw_only=True)
class OFAt:
    label: Optional[str] = "unnamed"
    size: int
# the same TypedDict written with string annotations (what `from __future__ import annotations` produces): CPython itself cannot see NotRequired there
OFTdS = TypedDict("OFTdS", {"label": "NotRequired[Optional[str]]", "size": "int"})
OFK = {"pydantic": OFPy, "typeddict": OFTd, "typeddict_str": OFTdS, "plain": OFPl, "dataclass": OFDc, "attrs": OFAt}
OFLD = {(k, dt): Retort(debug_trail=dt).get_loader(K) for k, K in OFK.items() for dt in DT_MODES}
OFDP = {(k, dt): Retort(debug_trail=dt).get_dumper(K) for k, K in OFK.items() for dt in DT_MODES if k.startswith("typeddict")}
def optional_first(li, size):
    label = ("MISSING", None, "", "x")[pick(li, 4)]
    size = EXT_POOL_A[pick(size, 3)]
    for (k, dt), ld in OFLD.items():
        data = {"size": size}
        if label != "MISSING": data["label"] = label
        o = outcome(ld, data)
        if o[0] != "ok": return False
        td = k.startswith("typeddict")
        got = o[2].get("label", "ABSENT") if td else o[2].label
        exp = ("ABSENT" if td else "unnamed") if label == "MISSING" else label
        if got != exp or (o[2]["size"] if td else o[2].size) != size: return False
        if td and OFDP[(k, dt)](o[2]) != data: return False          # and the dumper writes the optional key exactly when it is present
    return True

CONV = {}
for _k1, _K1 in KINDS.items():
    for _k2, _K2 in KINDS.items():
        try: CONV[(_k1, _k2)] = get_converter(_K1, _K2)
        except Exception as _e: ERR.append(("conv", _k1, _k2, repr(_e)[:200]))
# ---- declaration layouts of the same logical model: constructor parameter order differs from field declaration order
@dataclasses.dataclass
class LDcKw:
    n: Optional[int] = dataclasses.field(default=None, kw_only=True)
    a: int = dataclasses.field(default=0)
    b_c: str = "x"
@attr.s(auto_attribs=True)
class LAtKw:
    b_c: str = attr.ib(default="x", kw_only=True)
    a: int = 0
    n: Optional[int] = None
@dataclasses.dataclass
class _LBase:
    n: Optional[int] = None
@dataclasses.dataclass
class LDcChild(_LBase):
    a: int = 0
    b_c: str = "x"
class LInit:
    def __init__(self, b_c: str, *, n: Optional[int], a: int):
        self.a, self.b_c, self.n = a, b_c, n
# constructor parameter NAMES that differ from the field ids (alias)
@attr.s(auto_attribs=True, kw_only=True)
class LAtAlias:
    a: int = 0
    b_c: str = attr.ib(default="x", alias="bc")
    n: Optional[int] = attr.ib(default=None, alias="nn")
class LPyAlias(pydantic.BaseModel):
    a: int = 0
    b_c: str = pydantic.Field(default="x", alias="bC")
    n: Optional[int] = pydantic.Field(default=None, alias="nn")
LAYOUTS = {"dc_kw_first": LDcKw, "attrs_kw_first": LAtKw, "dc_inherited_first": LDcChild, "init_reordered": LInit, "attrs_alias": LAtAlias, "pydantic_alias": LPyAlias}
ALIAS_CTOR = {"attrs_alias": lambda a, b, n: LAtAlias(a=a, bc=b, nn=n), "pydantic_alias": lambda a, b, n: LPyAlias(a=a, bC=b, nn=n)}
INPUT_ONLY = ("init_reordered",)          # a plain class has an input shape only (documented): destination and loader, no dumper
LCONV = {}
for _ln, _L in LAYOUTS.items():
    for _k, _K in PURE.items():
        try:
            LCONV[(_k, _ln)] = get_converter(_K, _L)
            if _ln not in INPUT_ONLY: LCONV[(_ln, _k)] = get_converter(_L, _K)
        except Exception as _e: ERR.append(("lconv", _k, _ln, repr(_e)[:200]))
    for _ln2, _L2 in LAYOUTS.items():
        if _ln in INPUT_ONLY: continue
        try: LCONV[(_ln, _ln2)] = get_converter(_L, _L2)
        except Exception as _e: ERR.append(("lconv", _ln, _ln2, repr(_e)[:200]))
LLD = {(_ln, _s): Retort(strict_coercion=_s).get_loader(_L) for _ln, _L in LAYOUTS.items() for _s in (True, False)}
LDP = {_ln: Retort().get_dumper(_L) for _ln, _L in LAYOUTS.items() if _ln not in INPUT_ONLY}
def mk_any(kind, a, b, n):
    if kind in ALIAS_CTOR: return ALIAS_CTOR[kind](a, b, n)
    if kind in LAYOUTS: return LAYOUTS[kind](a=a, b_c=b, n=n)
    return mk_obj(kind, a, b, n)
def layouts_convert_ext(a, b, isnone, n):
    return layouts_convert(EXT_POOL_A[pick(a, 3)], EXT_POOL_B[pick(b, 3)], isnone, EXT_POOL_A[pick(n, 3)], True)
def layouts_convert(a, b, isnone, n, ext=False):
    """converters copy every field whatever the order of constructor parameters vs declared fields; loaders and dumpers of the layouts agree with the dataclass"""
    nv = None if isnone else n
    for (k1, k2), c in LCONV.items():
        if ("pydantic_alias" in (k1, k2)) != ext: continue            # pydantic validates in compiled code: pooled concrete values only
        out = c(mk_any(k1, a, b, nv))
        if fields_of(k2, out) != (a, b, nv): return False
    if ext: return True
    for ln in LAYOUTS:
        if ln in ALIAS_CTOR: continue                     # (external keys of alias layouts are kind-specific; the converters above are the subject)
        for s in (True, False):
            o = outcome(LLD[(ln, s)], {"a": a, "b_c": b, "n": nv})
            if o[0] != "ok" or fields_of(ln, o[2]) != (a, b, nv): return False
        if ln in LDP and LDP[ln](mk_any(ln, a, b, nv)) != {"a": a, "b_c": b, "n": nv}: return False
    return True

def kinds_convert(a, b, isnone, n, ext=False):
    """converters between any two kinds of the same logical model copy every field"""
    nv = None if isnone else n
    for (k1, k2), c in CONV.items():
        if not ext and (k1 in EXT or k2 in EXT): continue
        out = c(mk_obj(k1, a, b, nv))
        if fields_of(k2, out) != (a, b, nv): return False
    return True
'''


def build(tier, seed):
    quick = tier == "quick"
    tmo = 120 if quick else 300
    m = Module("c17_kinds").pre(SETUP)
    m.ob("creation", "x: int", "return not ERR", timeout=30, family="model kinds", bounds="6 kinds x 4 recipes x strict/lax loaders and dumpers, 36 converters")
    pure = "['dataclass', 'namedtuple', 'typeddict', 'attrs']"
    allk = "['dataclass', 'pydantic', 'sqlalchemy']"
    allkinds = "['dataclass', 'namedtuple', 'typeddict', 'attrs', 'pydantic', 'sqlalchemy']"
    # TypedDict keys and SQLAlchemy columns have no model-level default values: omit_default has nothing to compare with
    dump_kinds = {"plain": allkinds, "camel_forbid": allkinds, "map_nested": allkinds, "omit": "['dataclass', 'namedtuple', 'attrs', 'pydantic']"}
    for rn in ["plain", "camel_forbid", "map_nested", "omit"]:
        for strict in (True, False):
            sn_ = "strict" if strict else "lax"
            m.ob(f"load_pure_{rn}_{sn_}", "pa: bool, pb: bool, pn: bool, sa: int, sb: int, sn: int, extra: bool",
                 f"return kinds_load({rn!r}, {pure}, pa, pb, pn, pick(sa, 3), pick(sb, 3), pick(sn, 3), 1, 'a', extra, False, ({strict},))",
                 pre=["0 <= sa <= 2 and 0 <= sb <= 2 and 0 <= sn <= 2"], timeout=tmo * 2,
                 family="pure-Python kinds: differential on a symbolic input (dataclass / NamedTuple / TypedDict / attrs)",
                 bounds="presence bits, per field an atom of 3 kinds (int, str, None), unknown key; " + sn_)
        m.ob(f"load_ext_{rn}", "pa: bool, pb: bool, pn: bool, f: int, kind: int, extra: bool",
             f"ks = one_bad(pick(f, 3), pick(kind, 5))\nreturn kinds_load({rn!r}, {allk}, pa, pb, pn, ks[0], ks[1], ks[2], 1, 'a', extra, True)",
             pre=["0 <= f <= 2", "0 <= kind <= 4"], timeout=tmo * 2,
             family="pydantic / SQLAlchemy vs dataclass (data realised before the call: compiled validators)",
             bounds="exhaustive over presence bits x one field of 5 kinds (others valid) x unknown key; payloads fixed (realised)")
        m.ob(f"dump_{rn}", "a: int, b: str, isnone: bool, n: int",
             f"return kinds_dump({rn!r}, ['dataclass', 'namedtuple', 'attrs'] + ([] if {rn!r} == 'omit' else ['typeddict']), a, b, isnone, n)",
             pre=["len(b) <= 1"], timeout=tmo, family="dumpers of the pure-Python kinds agree", bounds="symbolic field values (incl. equal to the default)")
        m.ob(f"dump_ext_{rn}", "a: int, b: int, isnone: bool, n: int",
             f"return kinds_dump_ext({rn!r}, {dump_kinds[rn]}, a, b, isnone, n)",
             pre=["0 <= a <= 2 and 0 <= b <= 2 and 0 <= n <= 2"], timeout=tmo, family="dumpers of all kinds agree (pooled values: pydantic / SQLAlchemy constructors are compiled code)",
             bounds="field values from 3-value pools incl. the defaults")
    m.ob("factory_model", "pt: bool, pl: bool, pe: bool, pa: bool, i: int, lv: int, la: int", "return factory_model(pt, pl, pe, pa, i, lv, la, False)",
         timeout=tmo, family="second logical model (non-literal default factories between fields): dataclass vs attrs",
         bounds="all 16 presence subsets, symbolic int values, strict and lax")
    m.ob("factory_model_ext", "pt: bool, pl: bool, pe: bool, pa: bool", "return factory_model(pt, pl, pe, pa, 3, 4, 5, True)",
         timeout=tmo, family="second logical model incl. pydantic (realised data)", bounds="all 16 presence subsets")
    m.ob("convert", "a: int, b: str, isnone: bool, n: int", "return kinds_convert(a, b, isnone, n)", pre=["len(b) <= 1"], timeout=tmo,
         family="converters between any two pure-Python kinds copy every field", bounds="16 ordered kind pairs, symbolic field values")
    m.ob("dump_bad_value", "ii: int, ti: int, a: int", "return kinds_dump_bad(ii, ti, a)", pre=["0 <= ii < 4", "0 <= ti < 5"], timeout=tmo,
         family="dumping a malformed object (nested TypedDict without its required key, union field with a value of no member class): the four pure kinds agree, in all three debug modes",
         bounds="4 inner values x 5 tag values (valid and malformed); dataclass / NamedTuple / TypedDict (optional keys) / attrs x DISABLE / FIRST / ALL; symbolic int")
    m.ob("optional_first_none", "li: int, size: int", "return optional_first(li, size)", pre=["0 <= li < 4", "0 <= size < 3"], timeout=tmo,
         family="the first processed field is optional with a non-None default: missing -> default, explicit None / '' / value -> that value, for every kind",
         bounds="pydantic / TypedDict (sorted keys) / plain class / kw_only dataclass / kw_only attrs x 4 label states x 3 sizes x 3 debug modes (pooled values)")
    m.ob("convert_layouts", "a: int, b: str, isnone: bool, n: int", "return layouts_convert(a, b, isnone, n)", pre=["len(b) <= 1"], timeout=tmo,
         family="converters, loaders and dumpers for declaration layouts whose constructor parameter order differs from the field order",
         bounds="6 layouts (keyword-only field declared first in a dataclass / attrs class, inherited field first, reordered __init__, attrs and pydantic parameters renamed with alias=) x 4 pure kinds both ways "
                "and among themselves (41 converters; the plain class is a destination only); symbolic field values")
    m.ob("convert_layouts_ext", "a: int, b: int, isnone: bool, n: int", "return layouts_convert_ext(a, b, isnone, n)",
         pre=["0 <= a <= 2 and 0 <= b <= 2 and 0 <= n <= 2"], timeout=tmo, family="converters into / from a pydantic model whose parameters are renamed with alias= (pooled values)",
         bounds="pydantic alias layout x 4 pure kinds and 5 layouts, both directions; values from 3-element pools")
    m.ob("convert_ext", "a: int, b: int, isnone: bool, n: int", "return kinds_convert_ext(a, b, isnone, n)",
         pre=["0 <= a <= 2 and 0 <= b <= 2 and 0 <= n <= 2"], timeout=tmo, family="converters between any two kinds copy every field (pooled values)",
         bounds="36 ordered kind pairs incl. pydantic / SQLAlchemy, field values from 3-value pools")
    return Plan("C17", [m], assumptions=["documented per-kind limitations are encoded as explicit exclusions (TypedDict absent keys, SQLAlchemy column defaults)",
                                         "pydantic / SQLAlchemy receive realised data"],
                bounds={"fields": "3"}, outside=["private fields / computed fields of pydantic", "SQLAlchemy relationships"])
