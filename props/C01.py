"""C01 Round trip: load(dump(x, T), T) == x for every supported type and configuration."""
from vf.gen import Module, Plan, Ob
from props.fam_model import MEMBERS, member_module

L1 = '''
import json, re
from decimal import Decimal
from fractions import Fraction
from datetime import timedelta, date, time, datetime, timezone
RS = six_retorts()
L1_TYPES = (int, bool, None, str, LiteralString, float, bytes, bytearray, Decimal, Fraction, complex, timedelta, datetime, date, time, re.Pattern)
LD = {(tp, k): r.get_loader(tp) for tp in L1_TYPES for k, r in RS.items()}       # built natively, outside tracing
DP = {(tp, k): r.get_dumper(tp) for tp in L1_TYPES for k, r in RS.items()}
def rt(tp, x, js=False):
    """load(dump(x)) == x with identical type, in all 6 modes; optionally through json"""
    for key in RS:
        d = DP[(tp, key)](x)
        if js: d = json.loads(json.dumps(d))
        y = LD[(tp, key)](d)
        if not same(y, x): return False
    return True
def nat_pool(fn, ranges):
    """labelled native enumeration of a selector pool (values that live in C code / classes CrossHair replaces)"""
    import itertools
    ev, bad = 0, []
    for combo in itertools.product(*[range(r) for r in ranges]):
        ev += 1
        try: ok = fn(*combo)
        except Exception as e: ok = False
        if not ok: bad.append(combo)
    return ev, bad

BYTE_POOL = (0, 1, 65, 128, 255, 61)
def sel_bytes(n, c0, c1, c2, c3):
    n = pick(n, 5)
    return bytes(BYTE_POOL[pick(c, 6)] for c in (c0, c1, c2, c3)[:n])
DIGITS = (0, 1, 5, 10, 999, 123456789, 10 ** 30)
def sel_decimal(sign, d, k, special):
    special = pick(special, 4)
    if special == 1: return Decimal("Infinity") if pick(sign, 2) else Decimal("-Infinity")
    if special == 2: return Decimal("-0") if pick(sign, 2) else Decimal("0E+3")
    v = Decimal(DIGITS[pick(d, 7)]).scaleb(-(pick(k, 5) * 3))
    return -v if pick(sign, 2) else v
def sel_fraction(sign, p, q):
    f = Fraction(DIGITS[pick(p, 7)], DIGITS[pick(q, 6) + 1])
    return -f if pick(sign, 2) else f
FPOOL = (0.0, -0.0, 1.5, -2.25, 1e300, 1e-300, float("inf"), float("-inf"), 3.0, 0.1)
def sel_complex(a, b): return complex(FPOOL[pick(a, 10)], FPOOL[pick(b, 10)])
US_POOL = (0, 1, 999999, 1000000, 65024001, 263812480, 86399999999, 86400000000, 10 ** 15 + 1, 2 ** 52 + 1, 123456)
def sel_timedelta(sign, u):
    td = timedelta(microseconds=US_POOL[pick(u, 11)])
    return -td if pick(sign, 2) else td
DATES = (date(1, 1, 1), date(1970, 1, 1), date(2024, 2, 29), date(9999, 12, 31))
TIMES = (time(0, 0), time(23, 59, 59, 999999), time(12, 30, 15), time(1, 2, 3, 4, tzinfo=timezone.utc), time(5, 6, tzinfo=timezone(timedelta(hours=-3, minutes=-30))))
def sel_datetime(d, t): return datetime.combine(DATES[pick(d, 4)], TIMES[pick(t, 5)])
PATTERNS = ("", "a", "a|b", "[a-z]+", chr(92) + "d{2}", "(?P<x>a)")
FLAGS = (re.IGNORECASE, re.MULTILINE | re.DOTALL, re.VERBOSE, re.ASCII)
'''

L2 = '''
import collections, typing, json
from collections import deque, defaultdict
class KStub:
    def __init__(self, k): self.k = k
    def __eq__(self, o): return type(o) is KStub and o.k == self.k
    def __hash__(self): return self.k * 31 + 5
    def __repr__(self): return "KStub(%r)" % (self.k,)
def k_load(d):
    if type(d) is not int: raise TypeLoadError(int, d)
    return KStub(d - 7)
def k_dump(k): return k.k + 7
RECIPE = INV_STUB_RECIPE + [loader(KStub, k_load), dumper(KStub, k_dump)]
RS = six_retorts(RECIPE)
TYPES = {
    "List": List[Stub], "TupleVar": Tuple[Stub, ...], "Deque": Deque[Stub], "Sequence": typing.Sequence[Stub], "Iterable": typing.Iterable[Stub],
    "MutableSequence": typing.MutableSequence[Stub], "Collection": typing.Collection[Stub], "Reversible": typing.Reversible[Stub],
    "Set": Set[Stub], "FrozenSet": FrozenSet[Stub], "AbstractSet": typing.AbstractSet[Stub], "MutableSet": typing.MutableSet[Stub],
    "Dict": Dict[KStub, Stub], "Mapping": typing.Mapping[KStub, Stub], "MutableMapping": typing.MutableMapping[KStub, Stub],
    "DefaultDict": DefaultDict[KStub, Stub], "DictStr": Dict[str, Stub],
    "Tuple2": Tuple[Stub, KStub], "Tuple1": Tuple[Stub], "Optional": Optional[Stub], "UnionStrNone": Union[Stub, str, None],
    "ListList": List[List[Stub]], "DictList": Dict[str, List[Optional[Stub]]], "OptTuple": Optional[Tuple[Stub, Optional[Stub]]],
}
FACT = {"List": list, "TupleVar": tuple, "Deque": deque, "Sequence": tuple, "Iterable": tuple, "MutableSequence": list, "Collection": tuple,
        "Reversible": tuple, "Set": set, "FrozenSet": frozenset, "AbstractSet": frozenset, "MutableSet": set}
LD = {(n, k): r.get_loader(t) for n, t in TYPES.items() for k, r in RS.items()}
DP = {(n, k): r.get_dumper(t) for n, t in TYPES.items() for k, r in RS.items()}
def rt2(name, x, js, strict_only=False):
    for k in RS:
        if strict_only and not k[0]: continue
        d = DP[(name, k)](x)
        if js: d = json.loads(json.dumps(realize(d)))
        y = LD[(name, k)](d)
        if not same(y, x): return False
        if name == "DefaultDict" and y.default_factory is not None: return False
    return True
import dataclasses
@dataclasses.dataclass
class Node:
    v: int
    left: Optional["Node"] = None
    middle: Optional["Node"] = None
    right: Optional["Node"] = None
@dataclasses.dataclass
class Tree:
    v: int
    children: List["Tree"] = dataclasses.field(default_factory=list)
    spare: Optional["Tree"] = None
    by_key: Dict[str, "Tree"] = dataclasses.field(default_factory=dict)
from typing import Self
@dataclasses.dataclass
class SNode:
    v: int
    nxt: Optional[Self] = None
    kids: List[Self] = dataclasses.field(default_factory=list)
@dataclasses.dataclass
class SOuter:
    name: str
    node: SNode
    more: List[SNode] = dataclasses.field(default_factory=list)
    opt: Optional[SNode] = None
REC_RS = six_retorts()
REC = {(T_, k): (r.get_loader(T_), r.get_dumper(T_)) for T_ in (Node, Tree, SNode, SOuter) for k, r in REC_RS.items()}
def rec_value(sel, a, b, c):
    if sel == 0: return Node(a)
    if sel == 1: return Node(a, left=Node(b))
    if sel == 2: return Node(a, middle=Node(b))
    if sel == 3: return Node(a, right=Node(b, right=Node(c)))
    if sel == 4: return Node(a, middle=Node(b, right=Node(c)))
    if sel == 5: return Node(a, left=Node(b, middle=Node(c)), right=Node(c, left=Node(a)))
    if sel == 6: return Tree(a, children=[Tree(b, children=[Tree(c)])], spare=Tree(c, spare=Tree(b)))
    if sel == 7: return Tree(a, by_key={"k": Tree(b, by_key={"m": Tree(c, children=[Tree(a)])})})
    if sel == 9: return SNode(a, nxt=SNode(b, kids=[SNode(c)]))
    if sel == 10: return SOuter("o", SNode(a, nxt=SNode(b)), more=[SNode(c, kids=[SNode(a)])], opt=SNode(b, nxt=SNode(c)))
    if sel == 11: return SOuter("", SNode(a))
    return Tree(a, children=[Tree(b), Tree(c, spare=Tree(a, children=[Tree(b)]))])
def rt_rec(sel, a, b, c):
    x = rec_value(sel, a, b, c)
    T_ = type(x)
    for k in REC_RS:
        ld, dp = REC[(T_, k)]
        if ld(dp(x)) != x: return False
    return True

def sel_ints(n, c0, c1, c2):
    n = pick(n, 4)
    return [pick(c, 5) - 1 for c in (c0, c1, c2)[:n]]
'''

KTD = '''
from datetime import timedelta
from adaptix import Retort
TD_LOADER = Retort().get_loader(timedelta)
TD_DUMPER = Retort().get_dumper(timedelta)
def ktd(mode, bound):
    from vf.smt import ktd as K
    try:
        if mode == "relaxed":
            r = K.check_relaxed(TD_LOADER, -bound, bound, 120000)
        else:
            r = K.check(TD_LOADER, -bound, bound, 200000)
    except K.CannotEncode as e:
        return {"status": "UNKNOWN", "detail": "cannot encode: %s" % (e,)}
    rec = {"solver_queries": 1, "solver_s": round(r["solver_s"], 3), "evaluations": 1,
           "functions_encoded": ["morphing/concrete_provider.py:SecondsTimedeltaProvider._make_loader.<locals>.timedelta_loader"],
           "backend": "z3 LRA+LIA with the standard model of IEEE rounding (over-approximation)" if mode == "relaxed" else "z3 QF_FPBV bit-precise"}
    if r["result"] == "unsat":
        rec["status"] = "CONFIRMED"
    elif r["result"] == "sat":
        n = r["n"]
        if not chk_replay(n) or mode != "relaxed":
            rec.update(status="REFUTED", cex={"n": str(n)})
        else:
            # the relaxed model over-approximates binary64: look for a real witness bit-precisely before giving up
            try:
                r2 = K.check(TD_LOADER, -bound, bound, 100000)
            except K.CannotEncode:
                r2 = {"result": "unknown"}
            if r2["result"] == "sat": rec.update(status="REFUTED", cex={"n": str(r2["n"])})
            else: rec.update(status="UNKNOWN", detail="relaxed model sat (n=%d does not reproduce), bit-precise query %s" % (n, r2["result"]))
    else:
        rec.update(status="UNKNOWN", detail="solver " + r["result"])
    return rec
def chk_replay(n):
    td = timedelta(microseconds=n)
    return TD_LOADER(TD_DUMPER(td)) == td
TD_MAX_US = (timedelta.max.days * 86400 + timedelta.max.seconds) * 10 ** 6 + timedelta.max.microseconds
def ktd_beyond(lo):
    """the rest of the value space: lo <= n <= timedelta.max.  The relaxed model is asked for counterexamples; each is replayed natively (a model of
    the over-approximation may be spurious), up to 40 models."""
    import time, z3
    from vf.smt import ktd as K
    t0 = time.time()
    ev = K.RelaxedEval(TD_LOADER)
    n = z3.Int("n")
    x = ev.fl(z3.ToReal(n) / 1000000)
    out = ev.run(x)
    s = z3.Solver(); s.set("timeout", 60000)
    s.add(n >= lo, n <= TD_MAX_US, *ev.side)
    s.add(out != n)
    q = 0
    rec = {"functions_encoded": ["morphing/concrete_provider.py:SecondsTimedeltaProvider._make_loader.<locals>.timedelta_loader"],
           "backend": "z3 LRA+LIA with the standard model of IEEE rounding; every model replayed natively"}
    while q < 40:
        q += 1
        r = str(s.check())
        if r != "sat":
            rec.update(status="CONFIRMED" if r == "unsat" and q == 1 else "UNKNOWN", detail="solver %s after %d models" % (r, q - 1)); break
        v = s.model()[n].as_long()
        try: ok = chk_replay(v)
        except Exception: ok = False
        if not ok:
            rec.update(status="REFUTED", cex={"n": str(v)}); break
        s.add(n != v, n >= v + 999983)            # move on through the range
    else:
        rec.update(status="UNKNOWN", detail="40 models of the relaxed query did not replay")
    rec.update(solver_queries=q, solver_s=round(time.time() - t0, 3), evaluations=q)
    return rec
def chk_beyond(n):
    try: return chk_replay(n)
    except Exception: return False
'''


def ktd_module(tier):
    m = Module("c01_ktd").pre(KTD)
    bound = 2 ** 51 if tier == "quick" else 4502955548370931          # 0.99986 * 2**52: the largest bound the relaxed model decides (binary search)
    for name, mode, b, what in (("ktd_relaxed", "relaxed", bound, f"|n| <= {bound} microseconds (all counts; standard rounding model, sound over-approximation of binary64)"),
                                ("ktd_bitprecise", "bitprecise", 256, "|n| <= 256 microseconds, bit-precise QF_FPBV (cross-check of the encoding)")):
        m.fns.append(f"def smt_{name}():\n    return ktd({mode!r}, {b})\n\ndef chk_{name}(n):\n    return chk_replay(n)\n")
        m.obs.append(Ob(name=name, module=m.key, kind="smt", timeout=300, family="E2 K-td: timedelta dump/load round trip over integer microsecond counts (z3)",
                        bounds=what))
    m.fns.append(f"def smt_ktd_beyond():\n    return ktd_beyond({bound})\n\ndef chk_ktd_beyond(n):\n    return chk_beyond(n)\n")
    m.obs.append(Ob(name="ktd_beyond", module=m.key, kind="smt", timeout=300, family="E2 K-td: timedelta dump/load round trip over integer microsecond counts (z3)",
                    bounds=f"{bound} <= n <= timedelta.max in microseconds: the rest of the value space (known finding: float seconds cannot carry it)"))
    return m


def build(tier, seed):
    quick = tier == "quick"
    tmo = 90 if quick else 300
    m = Module("c01_l1").pre(L1)
    fam = "L1 leaf pairs: load(dump(x)) == x"
    m.ob("int", "x: int", "return rt(int, x)", timeout=tmo, family=fam, bounds="every int")
    m.ob("bool", "x: bool", "return rt(bool, x)", timeout=tmo, family=fam, bounds="both")
    m.ob("none", "x: int", "return rt(None, None)", timeout=tmo, family=fam, bounds="None")
    m.ob("str", "x: str", "return rt(str, x) and rt(LiteralString, x)", pre=["len(x) <= 3"], timeout=tmo, family=fam, bounds="str len<=3 symbolic")
    m.ob("float", "x: float", "return rt(float, x)", pre=["x == x"], timeout=tmo, family=fam, bounds="every non-NaN float (CrossHair real model; as-is dumper)")
    def natob(name, call, ranges, argnames, bounds):
        cex = "{" + ", ".join(f"{a!r}: str(c[{i}])" for i, a in enumerate(argnames)) + "}"
        args = ", ".join(argnames)
        m.nat(name, f"""
def nat_{name}():
    ev, bad = nat_pool(lambda {args}: {call}, {ranges!r})
    return {{"status": "REFUTED" if bad else "CONFIRMED", "cexs": [{cex} for c in bad[:5]], "evaluations": ev,
            "note": "labelled native enumeration of the selector pool: the values live in C code or in classes CrossHair replaces"}}

def chk_{name}({args}):
    return {call}
""", timeout=300, family=fam + " (labelled enumeration)", bounds=bounds)
    natob("bytes", "rt(bytes, sel_bytes(n, c0, c1, c2, c3), True) and rt(bytearray, bytearray(sel_bytes(n, c0, c1, c2, c3)), True)", (5, 6, 6, 6, 6),
          ["n", "c0", "c1", "c2", "c3"], "bytes len<=4 over the pool (0, 1, 65, 128, 255, 61); json leg")
    natob("decimal", "rt(Decimal, sel_decimal(sign, d, k, special), True)", (2, 7, 5, 4), ["sign", "d", "k", "special"],
          "Decimal: 7 digit strings x 5 exponents x sign, +-Infinity, -0, 0E+3; json leg")
    natob("fraction", "rt(Fraction, sel_fraction(sign, p, q), True)", (2, 7, 6), ["sign", "p", "q"], "Fraction p/q over the digit pool; json leg")
    natob("complex", "rt(complex, sel_complex(a, b), True)", (10, 10), ["a", "b"], "complex over a 10-value float pool incl. -0.0, inf, 1e300; json leg")
    natob("timedelta", "rt(timedelta, sel_timedelta(sign, u))", (2, 11), ["sign", "u"],
          "timedelta: 11 microsecond counts incl. the known rounding witnesses, both signs (all counts: K-td kernel)")
    natob("datetime", "rt(datetime, sel_datetime(d, t), True) and rt(date, sel_datetime(d, t).date(), True) and rt(time, sel_datetime(d, t).timetz(), True)",
          (4, 5), ["d", "t"], "4 dates x 5 times (naive, utc, negative offset); json leg")
    natob("pattern", "all(LD[(re.Pattern, k)](DP[(re.Pattern, k)](re.compile(PATTERNS[i]))) == re.compile(PATTERNS[i]) for k in RS)", (6,), ["i"], "6 patterns")
    natob("pattern_flags", "all(LD[(re.Pattern, k)](DP[(re.Pattern, k)](re.compile(PATTERNS[i + 1], FLAGS[f]))) == re.compile(PATTERNS[i + 1], FLAGS[f]) for k in RS)", (5, 4), ["i", "f"],
          "5 patterns x 4 flag sets (IGNORECASE, MULTILINE | DOTALL, VERBOSE, ASCII): known finding, the dumped form is the pattern text only")
    m2 = Module("c01_l2").pre(L2)
    fam2 = "L2 combinator pairs with an inverse stub pair (dump x -> n+1, load y -> Stub(y-1))"
    for name in ["List", "TupleVar", "Deque", "Sequence", "Iterable", "MutableSequence", "Collection", "Reversible"]:
        m2.ob(f"rt_{name}", "xs: List[int]", f"return rt2({name!r}, FACT[{name!r}](Stub(x) for x in xs), False)", pre=["len(xs) <= 3"],
              timeout=tmo, family=fam2, bounds="len<=3, payloads any int, 6 modes")
    for name in ["Set", "FrozenSet", "AbstractSet", "MutableSet"]:
        m2.ob(f"rt_{name}", "n: int, c0: int, c1: int, c2: int", f"return rt2({name!r}, FACT[{name!r}](Stub(x) for x in sel_ints(n, c0, c1, c2)), True)",
              pre=["0 <= n <= 3", "0 <= c0 < 5 and 0 <= c1 < 5 and 0 <= c2 < 5"], timeout=tmo, family=fam2,
              bounds="<=3 elements from [-1, 3] by selector (hashing), 6 modes, json leg")
    for name in ["Dict", "Mapping", "MutableMapping", "DefaultDict"]:
        ctor = "defaultdict(None, d)" if name == "DefaultDict" else "d"
        m2.ob(f"rt_{name}", "n: int, k0: int, k1: int, v0: int, v1: int",
              f"ks = sel_ints(n, k0, k1, 0)[:2]\nd = {{KStub(k): Stub(v) for k, v in zip(ks, (v0, v1))}}\nreturn rt2({name!r}, {ctor}, False)",
              pre=["0 <= n <= 2", "0 <= k0 < 5 and 0 <= k1 < 5"], timeout=tmo, family=fam2,
              bounds="<=2 items, keys by selector through a key loader/dumper pair, values any int, 6 modes")
    m2.ob("rt_DictStr", "n: int, k0: int, k1: int, v0: int, v1: int",
          "ks = sel_ints(n, k0, k1, 0)[:2]\nd = {'s%d' % k: Stub(v) for k, v in zip(ks, (v0, v1))}\nreturn rt2('DictStr', d, False)",
          pre=["0 <= n <= 2", "0 <= k0 < 5 and 0 <= k1 < 5"], timeout=tmo, family=fam2, bounds="str keys by selector, values any int")
    m2.ob("rt_DictStr_json", "n: int, k0: int, k1: int, v0: int, v1: int",
          "ks = sel_ints(n, k0, k1, 0)[:2]\nd = {'s%d' % k: Stub(pick(v, 4)) for k, v in zip(ks, (v0, v1))}\nreturn rt2('DictStr', d, True)",
          pre=["0 <= n <= 2", "0 <= k0 < 5 and 0 <= k1 < 5", "0 <= v0 < 4 and 0 <= v1 < 4"], timeout=tmo * 3, family=fam2, bounds="json leg: keys and values by selector")
    m2.ob("rt_Tuple2", "a: int, k: int", "return rt2('Tuple2', (Stub(a), KStub(pick(k, 5))), False) and rt2('Tuple1', (Stub(a),), False)",
          pre=["0 <= k < 5"], timeout=tmo, family=fam2, bounds="payload any int")
    m2.ob("rt_Optional", "isnone: bool, a: int", "return rt2('Optional', None if isnone else Stub(a), False)", timeout=tmo, family=fam2, bounds="None or any payload")
    m2.ob("rt_Union", "sel: int, a: int, s: str", "x = None if sel == 0 else (Stub(a) if sel == 1 else s)\nreturn rt2('UnionStrNone', x, False, strict_only=True)",
          pre=["0 <= sel <= 2", "len(s) <= 2"], timeout=tmo, family=fam2, bounds="non-overlapping union Stub|str|None (strict mode: in lax mode str() accepts every datum and the cases overlap)")
    m2.ob("rt_nested", "xs: List[int], a: int, isnone: bool",
          "v = [[Stub(x) for x in xs], []]\nd = {'k': [None if isnone else Stub(a)] + [Stub(x) for x in xs]}\n"
          "t = None if (isnone and a > 0) else (Stub(a), None if isnone else Stub(a + 1))\n"
          "return rt2('ListList', v, False) and rt2('DictList', d, False) and rt2('OptTuple', t, False)",
          pre=["len(xs) <= 2"], timeout=tmo, family=fam2, bounds="depth-2 glue: List[List], Dict[str, List[Optional]], Optional[Tuple[., Optional]]")
    m2.ob("rt_recursive", "sel: int, a: int, b: int, c: int", "return rt_rec(sel, a, b, c)", pre=["0 <= sel <= 12"], timeout=tmo,
          family="recursive models with several self references, typing.Self used inside another model (real loaders)", bounds="13 shapes nested up to 3 levels through first/second/third self-referencing field, list and dict of self; any int payloads; 6 modes")
    mo = Module("c01_omit").pre('''
import dataclasses, json
from adaptix import name_mapping
@dataclasses.dataclass
class OF:
    a: int
    tags: Optional[List[int]] = dataclasses.field(default_factory=list)
    meta: Optional[Dict[str, int]] = dataclasses.field(default_factory=dict)
    note: Optional[str] = dataclasses.field(default_factory=str)
    flag: Optional[bool] = False
    n: Optional[int] = 0
    t: Optional[Tuple[int, ...]] = ()
    z: Optional[int] = None
RECIPES = ([name_mapping(OF, omit_default=True)],
           [name_mapping(OF, omit_default=True, map={"tags": ("m", "tags"), "meta": ("m", "meta"), "n": ("m", "k", "n")})],
           [name_mapping(OF, omit_default="tags|note|n")],
           # nested nodes that end up EMPTY when every leaf inside is omitted: the emptied node {} equals the dict default of its last leaf
           [name_mapping(OF, omit_default=True, map={"meta": ("m", "meta")})],
           [name_mapping(OF, omit_default=True, map={"note": ("m", "note"), "meta": ("m", "meta"), "tags": ("l", "x", "tags")})],
           [name_mapping(OF, omit_default=True, map={"z": ("m", "x", "z"), "meta": ("m", "x", "meta")})])
ORS = [six_retorts(rc) for rc in RECIPES]
OLD = [{k: r.get_loader(OF) for k, r in rs.items()} for rs in ORS]
ODP = [{k: r.get_dumper(OF) for k, r in rs.items()} for rs in ORS]
def omit_rt(x, i1, i2, i3, i4, i5, i6, i7, js, rcs=(0, 1, 2)):
    obj = OF(x,
             tags=[None, [], [0], [x]][pick(i1, 4)], meta=[None, {}, {"k": 0}, {"": x}][pick(i2, 4)], note=[None, "", "x", "0"][pick(i3, 4)],
             flag=[None, False, True][pick(i4, 3)], n=[None, 0, x][pick(i5, 3)], t=[None, (), (0,), (x, 0)][pick(i6, 4)], z=[None, 0, x][pick(i7, 3)])
    for rc in rcs:
        for k in ORS[rc]:
            if js and (rc != 1 or k[1] is DT_MODES[1]): continue          # json under the engine is slow: nested recipe, DISABLE and ALL
            try:
                d = ODP[rc][k](obj)
                if js: d = json.loads(json.dumps(realize(d)))
                back = OLD[rc][k](d)
            except Exception:
                return False
            if back != obj: return False
            if type(back.flag) is not type(obj.flag) or type(back.n) is not type(obj.n) or type(back.z) is not type(obj.z): return False
    return True
''')
    mo.pre('''
from adaptix import NameStyle
def _ws_default(): return [0]
@dataclasses.dataclass
class OF2:
    soft_: Optional[int] = 10                  # the FIRST field is optional, its key differs from its id, its default is not None
    hard: Optional[int] = None
    ws: Optional[List[int]] = dataclasses.field(default_factory=_ws_default)      # a factory without a literal form
    big_name: Optional[str] = "d"
    a: int = 0
RECIPES2 = ([], [name_mapping(OF2, omit_default=True)], [name_mapping(OF2, name_style=NameStyle.CAMEL)], [name_mapping(OF2, omit_default=True, map={"soft_": ("m", "s"), "ws": ("m", "w")})])
ORS2 = [six_retorts(rc) for rc in RECIPES2]
OLD2 = [{k: r.get_loader(OF2) for k, r in rs.items()} for rs in ORS2]
ODP2 = [{k: r.get_dumper(OF2) for k, r in rs.items()} for rs in ORS2]
def first_optional_rt(x, i1, i2, i3, i4):
    obj = OF2(soft_=[None, 10, 0, x][pick(i1, 4)], hard=[None, 0, x][pick(i2, 3)], ws=[None, [], [0], [x]][pick(i3, 4)], big_name=[None, "d", ""][pick(i4, 3)], a=x)
    for rc in range(len(RECIPES2)):
        for k in ORS2[rc]:
            back = OLD2[rc][k](ODP2[rc][k](obj))
            if back != obj: return False
            if type(back.soft_) is not type(obj.soft_) or type(back.ws) is not type(obj.ws): return False
    return True
''')
    mo.pre('''
from typing import TypedDict, NotRequired
class TDo(TypedDict, total=False):
    title: Optional[str]
    n: Optional[int]
    tags: Optional[List[int]]
class TDr(TypedDict):
    a: int
    title: NotRequired[Optional[str]]
TD_RS = [six_retorts([]), six_retorts([name_mapping(TDr, map={"title": "t"}), name_mapping(TDo, map={"title": ("m", "t")})])]
TD_LD = [{(T, k): r.get_loader(T) for T in (TDo, TDr, List[TDo]) for k, r in rs.items()} for rs in TD_RS]
TD_DP = [{(T, k): r.get_dumper(T) for T in (TDo, TDr, List[TDo]) for k, r in rs.items()} for rs in TD_RS]
def typeddict_rt(x, i1, i2, i3):
    v = {}
    t = ("MISSING", None, "", "s")[pick(i1, 4)]
    n = ("MISSING", None, 0, x)[pick(i2, 4)]
    g = ("MISSING", None, [], [x])[pick(i3, 4)]
    if t != "MISSING": v["title"] = t
    if n != "MISSING": v["n"] = n
    if g != "MISSING": v["tags"] = g
    r = {"a": x}
    if t != "MISSING": r["title"] = t
    for rc in (0, 1):
        for k in TD_RS[rc]:
            for T, val in ((TDo, v), (TDr, r), (List[TDo], [v, {}])):
                back = TD_LD[rc][(T, k)](TD_DP[rc][(T, k)](val))
                if back != val: return False
    return True
''')
    mo.ob("typeddict_optional_keys_rt", "x: int, i1: int, i2: int, i3: int", "return typeddict_rt(x, i1, i2, i3)", pre=["0 <= i1 < 4 and 0 <= i2 < 4 and 0 <= i3 < 4"], timeout=tmo,
          family="round trip of TypedDicts with non-required Optional keys: missing, None, falsy and ordinary values are four different things",
          bounds="3 optional keys x (missing, None, falsy, value with a symbolic int); total=False and NotRequired; plain and renamed / nested keys; also inside a list; 6 modes")
    mo.ob("first_optional_rt", "x: int, i1: int, i2: int, i3: int, i4: int", "return first_optional_rt(x, i1, i2, i3, i4)",
          pre=["0 <= i1 < 4 and 0 <= i2 < 3 and 0 <= i3 < 4 and 0 <= i4 < 3"], timeout=tmo,
          family="round trip of a model whose first field is optional with a non-None default and a key that differs from its id; factory default without a literal form",
          bounds="5 defaulted fields x pooled values (None, the default, falsy, symbolic int); 4 recipes (plain, omit_default, camelCase, nested paths); 6 modes")
    for sl, pre in (("containers", "i4 == 1 and i5 == 1 and i7 == 0"), ("scalars", "i1 == 1 and i2 == 1 and i6 == 1"), ("mixed", "i1 == i2 and i5 == i7 and i3 == i6")):
        mo.ob(f"omit_default_rt_{sl}", "x: int, i1: int, i2: int, i3: int, i4: int, i5: int, i6: int, i7: int", "return omit_rt(x, i1, i2, i3, i4, i5, i6, i7, False)",
              pre=["0 <= i1 < 4 and 0 <= i2 < 4 and 0 <= i3 < 4 and 0 <= i4 < 3", "0 <= i5 < 3 and 0 <= i6 < 4 and 0 <= i7 < 3", pre], timeout=tmo,
              family="omit_default round trip with real field types: factory defaults, falsy look-alikes (None / 0 / '' / [] / {} / () / False)",
              bounds="7 defaulted Optional fields x 3-4 pooled values each (default, None, falsy and non-falsy values, a symbolic int); slice " + sl +
                     "; 3 recipes (all fields, nested paths, omit_default predicate); 6 modes")
    mo.ob("omit_default_rt_emptied", "x: int, i1: int, i2: int, i3: int, i7: int", "return omit_rt(x, i1, i2, i3, 1, 1, 1, i7, False, (3, 4, 5))",
          pre=["0 <= i1 < 4 and 0 <= i2 < 4 and 0 <= i3 < 4 and 0 <= i7 < 3"], timeout=tmo,
          family="omit_default round trip with real field types: factory defaults, falsy look-alikes (None / 0 / '' / [] / {} / () / False)",
          bounds="nested nodes that end up empty when every leaf inside is omitted (the emptied node {} equals the dict default of a leaf): 3 recipes (one leaf, "
                 "leaves in two nodes, two levels); tags / meta / note / z over their pools; 6 modes")
    mo.ob("omit_default_rt_json", "i1: int, i2: int, i6: int", "return omit_rt(7, i1, i2, i1, 1, i6 % 3, i6, 0, True)",
          pre=["0 <= i1 < 4 and 0 <= i2 < 4 and 0 <= i6 < 4"], timeout=tmo,
          family="omit_default round trip through json", bounds="as above, payload 7, nested-path recipe, debug_trail DISABLE and ALL, through json.dumps/loads (C code: realised)")
    from props.fam_litenum import litenum_module
    mods = [m, m2, mo, ktd_module(tier), litenum_module("C01", tier)]
    names = ["plain", "rename", "nested", "nested2", "camel", "upper_kebab", "no_trim", "map_gt_style", "ellipsis", "ellipsis_style", "pairs_map",
             "stack_override", "stack_style", "forbid_nested", "rest_field", "rest_field_rename", "saturator", "omit_all", "omit_one", "omit_nested",
             "as_list", "as_list_map", "list_gaps", "list_in_dict", "dict_in_list"]
    if quick:
        names = ["plain", "nested", "upper_kebab", "ellipsis_style", "pairs_map", "stack_style", "rest_field_rename", "saturator", "omit_nested",
                 "as_list_map", "list_gaps", "list_in_dict", "dict_in_list"]
    for name in names:
        mm = member_module("C01", name, extra_setup='''
import json
def model_rt(v0, v1, v2, e, js, exact=False):
    obj = mk_obj(v0, v1, v2, e)
    for dt in DT_MODES:
        d = DUMPERS[dt](obj)
        if js: d = json.loads(json.dumps(realize(d)))
        for strict in (True, False):
            back = LOADERS[(strict, dt)](d)
            if exact:
                if back != obj: return False
            elif not same_obj(MEMBER, back, obj): return False          # collected extras compared without empty nested mappings
    return True
''')
        mm.ob(f"model_rt_{name}", "v0: int, v1: int, v2: int, e: int", "return model_rt(v0, v1, v2, e, False)",
              pre=["-1 <= e <= 1", "v0 >= 0 and v1 >= 0 and v2 >= 0"], timeout=tmo, family="generated model loader/dumper pairs x name_mapping recipes",
              bounds="symbolic stub payloads (incl. equal to the default), extra mapping; 6 modes")
        mm.ob(f"model_rt_json_{name}", "v0: int, v1: int, v2: int, e: int", "return model_rt(pick(v0, 3) + 90, pick(v1, 3) + 90, pick(v2, 3) + 90, e, True)",
              pre=["-1 <= e <= 1", "0 <= v0 < 3 and 0 <= v1 < 3 and 0 <= v2 < 3"], timeout=tmo, family="generated model pairs through json",
              bounds="payloads 90..92 by selector (json is C code), extra mapping; 6 modes")
        if MEMBERS[name]["extra_in"] == "field" and any(p is not None and len(p) > 1 for p in MEMBERS[name]["layout"].values()):
            mm.ob(f"model_rt_exact_{name}", "v0: int, v1: int, v2: int, e: int", "return model_rt(v0, v1, v2, e, False, exact=True)",
                  pre=["-1 <= e <= 1", "v0 >= 0 and v1 >= 0 and v2 >= 0"], timeout=tmo, family="generated model pairs: exact equality incl. collected extras",
                  bounds="as model_rt")
        mods.append(mm)
    return Plan("C01", mods, assumptions=["inverse stub pair stands for any inverse child pair (assume-guarantee)", "values entering C code (base64, Decimal, datetime, json) are selector-enumerated"],
                bounds={}, outside=["pydantic / sqlalchemy models", "strings longer than the bound", "UUID / IP / Path values"])
