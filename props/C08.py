"""C08 Models are built by their own constructor; omitted fields get the true default."""
from vf.gen import Module, Plan

LIT_SETUP = '''
import enum, math, collections
from decimal import Decimal
from fractions import Fraction
from adaptix._internal.code_tools.utils import get_literal_expr, get_literal_from_factory, is_singleton

class IE(enum.IntEnum):
    ZERO = 0
    ONE = 1
class SE(str, enum.Enum):
    A = "a"
class MyInt(int): pass
class MyStr(str): pass
class MyTuple(tuple): pass
class MyList(list): pass

ATOMS = (0, 1, -1, 2, True, False, None, 0.0, 1.0, 1.5, -0.0, "", "a", "'", chr(92), "{x}", b"", b"a", bytearray(b"a"),
         Decimal(0), Decimal(1), Decimal("1.5"), Fraction(0), Fraction(1), complex(1, 0), complex(0, 0), IE.ONE, IE.ZERO, SE.A,
         Ellipsis, NotImplemented, MyInt(1), MyStr("a"), float("inf"), float("nan"), 10 ** 30, int, len)
SUB = (0, 1, True, False, None, 1.0, "a", Decimal(1), IE.ONE, MyInt(0), b"a", 2, float("nan"), float("inf"), -0.0, Fraction(1))

def atom(s): return ATOMS[pick(s, len(ATOMS))]
def sub(s): return SUB[pick(s, len(SUB))]

def container(kind, n, s0, s1):
    n = pick(n, 3)
    els = [sub(s) for s in (s0, s1)[:n]]
    if kind == 0: return list(els)
    if kind == 1: return tuple(els)
    if kind == 2: return set(els)
    if kind == 3: return frozenset(els)
    if kind == 4: return {e: e for e in els}
    if kind == 5: return [tuple(els)]
    if kind == 6: return (list(els),)
    if kind == 7: return MyTuple(els)
    if kind == 8: return MyList(els)
    return {"k": tuple(els)}

def rng(kind, a, b, c):
    a, b, c = pick(a, 4) - 1, pick(b, 4) - 1, pick(c, 3) + 1
    return slice(a, b, c) if kind == 0 else range(a, b, c)

def exact_same(x, y):
    """== and exactly the same type, recursively; NaN equals NaN"""
    if type(x) is not type(y): return False
    if isinstance(x, (list, tuple)):
        return len(x) == len(y) and all(exact_same(p, q) for p, q in zip(x, y))
    if isinstance(x, dict):
        return len(x) == len(y) and all(any(exact_same(k, k2) and exact_same(v, v2) for k2, v2 in y.items()) for k, v in x.items())
    if isinstance(x, (set, frozenset)):
        return len(x) == len(y) and all(any(exact_same(p, q) for q in y) for p in x)
    if isinstance(x, float):
        return (x == y and math.copysign(1, x) == math.copysign(1, y)) or (x != x and y != y)
    if isinstance(x, (slice, range)):
        return x == y
    return x == y

def lit_ok(v):
    """get_literal_expr(v) is None, or source text that evaluates to a value equal to v and of exactly v's type"""
    e = get_literal_expr(v)
    if e is None:
        return True
    got = eval(e, {"MyInt": None})
    return exact_same(got, v)

def singleton_ok(v):
    """is_singleton never raises (unhashable defaults) and says True only for values where `is` equals `==`"""
    try:
        r = is_singleton(v)
    except Exception:
        return False
    return (not r) or v is None or v is Ellipsis or v is NotImplemented or isinstance(v, (bool, enum.Enum))

FACTORIES = (list, dict, tuple, str, bytes, type(None), set, int, float, frozenset, MyList, bool,
             bytearray, complex, Decimal, Fraction, collections.deque, collections.OrderedDict, collections.Counter, collections.defaultdict, MyTuple, object)
def factory_ok(s):
    f = FACTORIES[pick(s, len(FACTORIES))]
    e = get_literal_from_factory(f)
    if e is None: return True
    got = eval(e)
    if f is object: return False          # no literal denotes a fresh object()
    return exact_same(got, f())
'''

E2E_SETUP = '''
import enum, math, dataclasses
from decimal import Decimal
from fractions import Fraction
from typing import NamedTuple, Any
from adaptix import Retort, name_mapping
import attr

class IE(enum.IntEnum):
    ZERO = 0
    ONE = 1
class MyInt(int): pass
NAN = float("nan")
DEFAULTS = (0, 1, True, False, None, Decimal("1"), Decimal(0), IE.ONE, IE.ZERO, 1.0, NAN, "", (1,), (), Fraction(1), MyInt(1),
            complex(1, 0), frozenset({1}), range(0, 3, 2), slice(1, 2, 3), b"a", (0, False), Ellipsis)
ND = len(DEFAULTS)
CALLS = []

def same_default(got, d):
    if type(got) is not type(d): return False
    if isinstance(d, float) and d != d: return got != got
    if isinstance(d, tuple): return len(got) == len(d) and all(same_default(x, y) for x, y in zip(got, d))
    return got == d

def mk_dataclass(d):
    @dataclasses.dataclass
    class M:
        a: int
        b: Any = d
        def __post_init__(self): CALLS.append(("post_init", self.a, self.b))
    return M

def mk_namedtuple(d):
    class M(NamedTuple):
        a: int
        b: Any = d
    class N(M):
        def __new__(cls, *args, **kwargs):
            CALLS.append(("new", args, kwargs))
            return super().__new__(cls, *args, **kwargs)
    return M

def mk_attrs(d):
    @attr.s(auto_attribs=True)
    class M:
        a: int
        b: Any = d
        def __attrs_post_init__(self): CALLS.append(("post_init", self.a, self.b))
    return M

def mk_class(d):
    class M:
        def __init__(self, a: int, b: Any = d):
            CALLS.append(("init", a, b))
            self.a = a; self.b = b
    return M

KINDS = {"dataclass": mk_dataclass, "namedtuple": mk_namedtuple, "attrs": mk_attrs, "class": mk_class}
MODELS, LOADERS, BUILD_ERRORS = {}, {}, []
for _k, _mk in KINDS.items():
    for _i, _d in enumerate(DEFAULTS):
        try:
            _M = _mk(_d)
            MODELS[(_k, _i)] = _M
            for _dt in DT_MODES:
                LOADERS[(_k, _i, _dt)] = Retort(debug_trail=_dt).get_loader(_M)
        except Exception as _e:
            BUILD_ERRORS.append((_k, _i, repr(_e)))

def e2e_default(kind, si, present, a, b):
    i = pick(si, ND)
    d = DEFAULTS[i]
    if (kind, i) not in MODELS:
        return True                      # creation failures are reported by ob_builds
    for dt in DT_MODES:
        ld = LOADERS[(kind, i, dt)]
        data = {"a": a}
        if present: data["b"] = b
        del CALLS[:]
        obj = ld(data)
        if type(obj) is not MODELS[(kind, i)]: return False
        if kind != "namedtuple" and len(CALLS) != 1: return False          # real constructor, exactly once
        if obj.a != a: return False
        if present:
            if obj.b is not b and obj.b != b: return False
        elif not same_default(obj.b, d): return False
    return True

# ---- two (three) omitted fields of ONE model whose defaults are equal but of different types: each gets its own
import collections
class PtNT(NamedTuple):
    x: int = 0
    y: int = 0
PAIR_POOL = (Decimal(0), Fraction(0), 0, 0.0, False, IE.ZERO, MyInt(0), complex(0, 0), Decimal(1), Fraction(1), 1, True, IE.ONE, 1.0,
             PtNT(0, 0), (0, 0), collections.OrderedDict(), {}, collections.defaultdict(int), (), PtNT(), frozenset(), "", b"")
NPP = len(PAIR_POOL)
def mk_pair(kind, d1, d2):
    if kind == 0:
        @dataclasses.dataclass
        class M:
            a: int
            p: Any = d1
            q: Any = d2
        try: M(1)
        except Exception: pass
        return M
    if kind == 1:
        class M(NamedTuple):
            a: int
            p: Any = d1
            q: Any = d2
        return M
    class M:
        def __init__(self, a: int, p: Any = d1, q: Any = d2): self.a, self.p, self.q = a, p, q
    return M
def _mutable(v): return isinstance(v, (dict, list, set))
PAIR_MODELS, PAIR_LOADERS = {}, {}
for _i in range(NPP):
    for _j in range(NPP):
        if _i == _j: continue
        if not (PAIR_POOL[_i] == PAIR_POOL[_j]): continue                   # only the confusable (equal) pairs
        for _kind in (0, 1, 2):
            if _kind == 0 and (_mutable(PAIR_POOL[_i]) or _mutable(PAIR_POOL[_j])): continue      # dataclasses refuse mutable defaults
            try:
                _M = mk_pair(_kind, PAIR_POOL[_i], PAIR_POOL[_j])
                PAIR_MODELS[(_kind, _i, _j)] = _M
                PAIR_LOADERS[(_kind, _i, _j)] = Retort().get_loader(_M)
            except Exception as _e:
                BUILD_ERRORS.append(("pair", _kind, _i, _j, repr(_e)))
PAIR_KEYS = sorted(PAIR_MODELS)
NPK = len(PAIR_KEYS)
def pair_same(got, d):
    if type(got) is not type(d): return False
    if isinstance(d, collections.defaultdict): return got == d and got.default_factory is d.default_factory
    return got == d
def default_pairs(ki, pp, pq, a, v):
    key = PAIR_KEYS[ki]
    kind, i, j = key
    data = {"a": a}
    if pp: data["p"] = v
    if pq: data["q"] = v
    obj = PAIR_LOADERS[key](data)
    if type(obj) is not PAIR_MODELS[key] or obj.a != a: return False
    if pp:
        if obj.p is not v and obj.p != v: return False
    elif not pair_same(obj.p, PAIR_POOL[i]): return False
    if pq:
        if obj.q is not v and obj.q != v: return False
    elif not pair_same(obj.q, PAIR_POOL[j]): return False
    return True

# ---- parameter kinds: positional-only / positional-or-keyword / keyword-only, optional ones skipped
class PK:
    def __init__(self, a: int, b: int = 10, /, c: int = 20, d: int = 30, *, e: int = 40, f: int):
        CALLS.append(("init", (a, b, c, d), (e, f)))
        self.a, self.b, self.c, self.d, self.e, self.f = a, b, c, d, e, f
PK_LOADERS = {dt: Retort(debug_trail=dt).get_loader(PK) for dt in DT_MODES}
class PK2:
    def __init__(self, a: int, b: int = 10, c: int = 20, *args_unused_marker: int, e: int = 40):
        pass
def pk(pb, pc, pd, pe, a, b, c, d, e, f):
    for dt in DT_MODES:
        data = {"a": a, "f": f, "b": b}      # positional-only parameters are always required fields (by design)
        pb = True
        if pc: data["c"] = c
        if pd: data["d"] = d
        if pe: data["e"] = e
        del CALLS[:]
        obj = PK_LOADERS[dt](data)
        if len(CALLS) != 1: return False
        exp = (a, b if pb else 10, c if pc else 20, d if pd else 30, e if pe else 40, f)
        if (obj.a, obj.b, obj.c, obj.d, obj.e, obj.f) != exp: return False
    return True

# ---- an optional parameter the constructor itself must fill (attrs factory taking self), followed by further parameters
@attr.s(auto_attribs=True)
class TS:
    a: int
    t: int = attr.ib(default=attr.Factory(lambda self: self.a + 100, takes_self=True))
    z: int = 7
    w: int = attr.ib(default=attr.Factory(lambda self: self.z + 1, takes_self=True))
    y: int = 9
TS_LOADERS = {dt: Retort(debug_trail=dt).get_loader(TS) for dt in DT_MODES}
# ... and the constructor parameter of such a field is named differently from the field id (private attribute, alias=)
@attr.s(auto_attribs=True)
class TSP:
    a: int
    _t: int = attr.ib(default=attr.Factory(lambda self: self.a + 100, takes_self=True))
    print_: int = attr.ib(default=attr.Factory(lambda self: self.a + 200, takes_self=True), alias="print")
    z: int = 7
TSP_LOADERS = {dt: Retort(debug_trail=dt).get_loader(TSP) for dt in DT_MODES}
def takes_self_names(pt, pp, pz, a, t, p, z):
    for dt in DT_MODES:
        data = {"a": a}
        if pt: data["_t"] = t
        if pp: data["print"] = p
        if pz: data["z"] = z
        o = outcome(TSP_LOADERS[dt], data)
        if o[0] != "ok": return False
        obj = o[2]
        if (obj.a, obj._t, obj.print_, obj.z) != (a, t if pt else a + 100, p if pp else a + 200, z if pz else 7): return False
    return True
def takes_self(pt, pz, pw, py, a, t, z, w, y):
    for dt in DT_MODES:
        data = {"a": a}
        if pt: data["t"] = t
        if pz: data["z"] = z
        if pw: data["w"] = w
        if py: data["y"] = y
        o = outcome(TS_LOADERS[dt], data)
        if o[0] != "ok": return False
        obj = o[2]
        ez = z if pz else 7
        if (obj.a, obj.t, obj.z, obj.w, obj.y) != (a, t if pt else a + 100, ez, w if pw else ez + 1, y if py else 9): return False
    return True

# ---- parameter name differs from the field id (attrs private attributes), keyword-only and after a skipped field
@attr.s(auto_attribs=True, kw_only=True)
class Priv:
    a: int
    _b: int = 5
@attr.s(auto_attribs=True)
class Priv2:
    a: int
    s: int = 1
    _c: int = 3
PRIV_LOADERS = {dt: (Retort(debug_trail=dt).get_loader(Priv), Retort(recipe=[name_mapping(Priv2, skip=["s"])], debug_trail=dt).get_loader(Priv2)) for dt in DT_MODES}
def priv(pb, pc, a, b, c):
    for dt in DT_MODES:
        l1, l2 = PRIV_LOADERS[dt]
        d1 = {"a": a}; d2 = {"a": a}
        if pb: d1["_b"] = b
        if pc: d2["_c"] = c
        o1, o2 = outcome(l1, d1), outcome(l2, d2)
        if o1[0] != "ok" or o2[0] != "ok": return False
        if (o1[2].a, o1[2]._b) != (a, b if pb else 5): return False
        if (o2[2].a, o2[2].s, o2[2]._c) != (a, 1, c if pc else 3): return False
    return True

# ---- the first field of the model is optional and its external key differs from the field id (trimmed underscore / name_style / map)
from adaptix import NameStyle
class FO:
    def __init__(self, from_: int = 5, page_size: int = 20, m: int = 30, *, last: int):
        CALLS.append(("init", from_, page_size, m, last))
        self.from_, self.page_size, self.m, self.last = from_, page_size, m, last
FO_RECIPES = ([], [name_mapping(FO, name_style=NameStyle.CAMEL)], [name_mapping(FO, map={"from_": "f", "m": ("n", "m")})])
FO_KEYS = ({"from_": ("from",), "page_size": ("page_size",), "m": ("m",)}, {"from_": ("from",), "page_size": ("pageSize",), "m": ("m",)},
           {"from_": ("f",), "page_size": ("page_size",), "m": ("n", "m")})
FO_LD = {(rc, dt): Retort(recipe=FO_RECIPES[rc], debug_trail=dt).get_loader(FO) for rc in range(3) for dt in DT_MODES}
def first_optional(rc, p1, p2, p3, a, b, c, d):
    rc = pick(rc, 3)
    for dt in DT_MODES:
        data = {"last": d}
        if rc == 2: data["n"] = {}
        for f, present, v in (("from_", p1, a), ("page_size", p2, b), ("m", p3, c)):
            if present:
                path = FO_KEYS[rc][f]
                if len(path) == 1: data[path[0]] = v
                else: data[path[0]][path[1]] = v
        del CALLS[:]
        obj = FO_LD[(rc, dt)](data)
        if len(CALLS) != 1: return False
        if (obj.from_, obj.page_size, obj.m, obj.last) != (a if p1 else 5, b if p2 else 20, c if p3 else 30, d): return False
    return True

# ---- distinct model classes that look alike (same name, module, fields) on ONE retort: each is built by its own constructor with its own defaults
def _make_twin(default, tag):
    @dataclasses.dataclass
    class Twin:
        a: int
        b: Any = default
        def __post_init__(self): CALLS.append(("post_init", tag, self.a))
    return Twin
def _make_attrs_twin(default, tag):
    @attr.s(auto_attribs=True)
    class Twin:
        a: int
        b: Any = default
        def __attrs_post_init__(self): CALLS.append(("post_init", tag, self.a))
    return Twin
TWIN_DEFAULTS = ((3, 10), (True, Decimal("1")), (0, False), ((), []), (Decimal(0), Fraction(0)))
TWINS = []
for _d1, _d2 in TWIN_DEFAULTS:
    for _order in (0, 1):
      for _mk in (_make_twin, _make_attrs_twin):          # dataclass twins and attrs twins (attrs Attribute objects compare by value)
        _T1, _T2 = _mk(_d1, 1), (_mk(_d2, 2) if not isinstance(_d2, list) else _mk(_d1 + (1,), 2))
        _r = Retort()
        _lds = [_r.get_loader(_T1), _r.get_loader(_T2)] if _order == 0 else list(reversed([_r.get_loader(_T2), _r.get_loader(_T1)]))
        TWINS.append(((_T1, _T2), _lds))
NTW = len(TWINS)
def twins(ti, which, present, a, b):
    (T1, T2), lds = TWINS[pick(ti, NTW)]
    w = 1 if which else 0
    T, ld = (T1, T2)[w], lds[w]
    data = {"a": a}
    if present: data["b"] = b
    del CALLS[:]
    obj = ld(data)
    if type(obj) is not T or CALLS != [("post_init", w + 1, a)]: return False
    exp = T(a) if not present else None
    del CALLS[:]
    if present: return obj.b is b or obj.b == b
    return same_default(obj.b, exp.b)

# ---- attrs class with a hand-written __init__ whose signature defaults differ from the attribute defaults: the CONSTRUCTOR's defaults count
@attr.define
class CI:
    a: int
    retries: int = 3
    tags: list = attr.Factory(list)
    _queue: str = "default"
    def __init__(self, a: int, retries: int = 5, tags: list = ("urgent",), queue: str = "bulk"):
        CALLS.append(("init", a, retries, tuple(tags), queue))
        self.__attrs_init__(a, retries, list(tags), queue)
CI_LD = {dt: Retort(debug_trail=dt).get_loader(CI) for dt in DT_MODES}
def custom_init_defaults(pr, pt, pq, a, r, t):
    for dt in DT_MODES:
        data = {"a": a}
        if pr: data["retries"] = r
        if pt: data["tags"] = [t]
        if pq: data["_queue"] = "q"
        del CALLS[:]
        o = outcome(CI_LD[dt], data)
        if o[0] != "ok" or len(CALLS) != 1: return False
        obj = o[2]
        model = CI(a, **({"retries": r} if pr else {}), **({"tags": [t]} if pt else {}), **({"queue": "q"} if pq else {}))
        del CALLS[:]
        if (obj.a, obj.retries, obj.tags, obj._queue) != (model.a, model.retries, model.tags, model._queue): return False
    return True

# ---- default factories: fresh result for each loaded object
@dataclasses.dataclass
class DF:
    a: int
    xs: list = dataclasses.field(default_factory=list)
    ys: dict = dataclasses.field(default_factory=lambda: {"k": [1]})
    zs: set = dataclasses.field(default_factory=set)
class DFN(NamedTuple):
    a: int
    xs: list = []          # a shared mutable DefaultValue: the model itself would share it
DF_LOADERS = {dt: Retort(debug_trail=dt).get_loader(DF) for dt in DT_MODES}
def df(a, b):
    for dt in DT_MODES:
        o1, o2 = DF_LOADERS[dt]({"a": a}), DF_LOADERS[dt]({"a": b})
        if o1.xs != [] or o1.ys != {"k": [1]} or o1.zs != set(): return False
        if type(o1.xs) is not list or type(o1.ys) is not dict or type(o1.zs) is not set: return False
        if o1.xs is o2.xs or o1.ys is o2.ys or o1.zs is o2.zs or o1.ys["k"] is o2.ys["k"]: return False
    return True
'''


def _count_pairs():
    import collections, enum
    from decimal import Decimal
    from fractions import Fraction
    from typing import NamedTuple
    class IE(enum.IntEnum):
        ZERO = 0
        ONE = 1
    class MyInt(int): pass
    class PtNT(NamedTuple):
        x: int = 0
        y: int = 0
    pool = (Decimal(0), Fraction(0), 0, 0.0, False, IE.ZERO, MyInt(0), complex(0, 0), Decimal(1), Fraction(1), 1, True, IE.ONE, 1.0,
            PtNT(0, 0), (0, 0), collections.OrderedDict(), {}, collections.defaultdict(int), (), PtNT(), frozenset(), "", b"")
    mut = lambda v: isinstance(v, (dict, list, set))
    n = 0
    for i in range(len(pool)):
        for j in range(len(pool)):
            if i == j or not (pool[i] == pool[j]): continue
            for kind in (0, 1, 2):
                if kind == 0 and (mut(pool[i]) or mut(pool[j])): continue
                n += 1
    return n


def build(tier, seed):
    quick = tier == "quick"
    tmo = 90 if quick else 600
    m = Module("c08_literal").pre(LIT_SETUP)
    m.ob("lit_atom", "s: int", "return lit_ok(atom(s))", pre=["0 <= s < len(ATOMS)"], timeout=tmo,
         family="get_literal_expr on look-alike atoms",
         bounds="38 atoms: ints, bools, None, floats incl. -0.0/inf/nan, strs with quote/backslash/brace, bytes, Decimal, Fraction, complex, IntEnum, str-Enum, int/str subclasses, singletons, builtins")
    m.ob("lit_container", "kind: int, n: int, s0: int, s1: int", "return lit_ok(container(kind, n, s0, s1))",
         pre=["0 <= kind <= 9", "0 <= n <= 2", "0 <= s0 < len(SUB)", "0 <= s1 < len(SUB)"], timeout=tmo * 5,
         family="get_literal_expr on containers of look-alikes",
         bounds="10 container shapes (list, tuple, set, frozenset, dict, nested, tuple/list subclasses) x <=2 elements from 16 look-alikes (incl. nan, inf, -0.0)")
    m.nat("lit_unrenderable", '''
def _unrenderable_pool():
    import dataclasses
    big = 10 ** 5000
    rec = []; rec.append(rec)
    recd = {}; recd["k"] = recd
    deep = []
    for _ in range(3000): deep = [deep]
    return [("big", big), ("neg_big", -big), ("list_big", [big]), ("tuple_big", (1, big)), ("dict_big", {"k": big}), ("rec_list", rec), ("rec_dict", recd), ("deep", deep)]

def unrenderable_case(i):
    import dataclasses
    name, v = _unrenderable_pool()[i]
    try:
        e = get_literal_expr(v)
    except Exception:
        return False
    if e is not None: return False                       # none of these has a source form the compiler accepts
    try:
        is_singleton(v)
    except Exception:
        return False
    # end to end: a model with such a default gets a loader, and the omitted field holds the default object itself
    M = dataclasses.make_dataclass("MU", [("a", int), ("d", Any, dataclasses.field(default=v))]) if not isinstance(v, (list, dict)) else \
        dataclasses.make_dataclass("MU", [("a", int), ("d", Any, dataclasses.field(default_factory=lambda: v))])
    from adaptix import Retort
    for dt in DT_MODES:
        obj = Retort(debug_trail=dt).get_loader(M)({"a": 1})
        if obj.d is not v and not (type(obj.d) is type(v) and obj.d == v): return False
    return True

def nat_lit_unrenderable():
    bad = [{"i": str(i)} for i in range(len(_unrenderable_pool())) if not unrenderable_case(i)]
    return {"status": "REFUTED" if bad else "CONFIRMED", "cexs": bad[:5], "evaluations": len(_unrenderable_pool()),
            "note": "labelled native enumeration: values whose repr raises or recurses (no symbolic form under the engine)"}

def chk_lit_unrenderable(i):
    return unrenderable_case(i)
''', timeout=120, family="get_literal_expr / is_singleton on defaults that have no source form (labelled enumeration)",
          bounds="ints beyond the int -> str conversion limit (also inside list / tuple / dict), self-referential list and dict, a list nested 3000 deep; "
                 "renderer returns None, and a model with such a default loads (3 debug modes)")
    m.ob("lit_range", "kind: int, a: int, b: int, c: int", "return lit_ok(rng(kind, a, b, c))",
         pre=["0 <= kind <= 1", "0 <= a <= 3", "0 <= b <= 3", "0 <= c <= 2"], timeout=tmo,
         family="get_literal_expr on slice/range", bounds="start, stop in [-1,2], step in [1,3]")
    m.ob("singleton_atom", "s: int", "return singleton_ok(atom(s))", pre=["0 <= s < len(ATOMS)"], timeout=tmo,
         family="is_singleton", bounds="38 atoms")
    m.ob("singleton_container", "kind: int, n: int, s0: int", "return singleton_ok(container(kind, n, s0, 0))",
         pre=["0 <= kind <= 9", "0 <= n <= 1", "0 <= s0 < len(SUB)"], timeout=tmo,
         family="is_singleton", bounds="containers (unhashable defaults) with <=1 element")
    m.ob("factory", "s: int", "return factory_ok(s)", pre=["0 <= s < len(FACTORIES)"], timeout=tmo,
         family="get_literal_from_factory", bounds="22 zero-argument factories (builtin containers and scalars, bytearray, complex, Decimal, Fraction, collections classes, subclasses, object)")
    me = Module("c08_e2e").pre(E2E_SETUP)
    me.ob("builds", "x: int", "return not BUILD_ERRORS", timeout=30, family="end-to-end defaults",
          bounds="loader creation for every (kind, default) member")
    for kind in ("dataclass", "namedtuple", "attrs", "class"):
        me.ob(f"default_{kind}", "si: int, present: bool, a: int, b: int", f"return e2e_default({kind!r}, si, present, a, b)",
              pre=["0 <= si < ND"], timeout=tmo,
              family="end-to-end: absent field holds the true default; real constructor called once",
              bounds="23 look-alike defaults x presence bit x symbolic int values x 3 debug modes")
    # the number of confusable pairs is computed from the pool at build time
    import collections as _c, decimal as _d, fractions as _f
    npk = _count_pairs()
    for lo in range(0, npk, 60):
        hi = min(npk, lo + 60)
        me.ob(f"default_pairs_{lo:03d}", "ki: int, pp: bool, pq: bool, a: int, v: int", "return default_pairs(pick(ki - %d, %d) + %d, pp, pq, a, v)" % (lo, hi - lo, lo),
              pre=[f"{lo} <= ki < {hi}"], timeout=tmo,
              family="two defaulted fields of one model with equal but differently typed defaults (incl. container subclasses): each omitted field gets its own",
              bounds=f"models {lo}..{hi - 1} of {npk}: every ordered pair of equal values from a 24-value pool (Decimal/Fraction/int/float/bool/IntEnum/int subclass/complex 0 and 1, "
                     "NamedTuple instance vs tuple, OrderedDict / defaultdict vs dict, empty containers) x dataclass / NamedTuple / plain class; presence bits and values symbolic")
    me.ob("first_optional_renamed", "rc: int, p1: bool, p2: bool, p3: bool, a: int, b: int, c: int, d: int", "return first_optional(rc, p1, p2, p3, a, b, c, d)",
          pre=["0 <= rc < 3"], timeout=tmo, family="present optional fields hold the loaded value, absent ones the default, when the FIRST field is optional and its key differs from its id",
          bounds="3 recipes (trimmed underscore, camelCase, map with a nested path) x presence bits x symbolic ints; 3 debug modes; constructor called once")
    me.ob("look_alike_classes", "ti: int, which: bool, present: bool, a: int, b: int", "return twins(ti, which, present, a, b)", pre=["0 <= ti < NTW"], timeout=tmo,
          family="two distinct model classes with the same name, module and fields on one retort: each loaded by its own constructor with its own defaults",
          bounds="5 pairs of defaults (equal-looking and different) x dataclass / attrs x both request orders x which class x presence bit x symbolic ints")
    me.ob("custom_init_defaults", "pr: bool, pt: bool, pq: bool, a: int, r: int, t: int", "return custom_init_defaults(pr, pt, pq, a, r, t)", timeout=tmo,
          family="attrs class with a hand-written __init__ whose signature defaults differ from the attribute defaults: an omitted field holds what the model itself would produce",
          bounds="all presence patterns of 3 optional parameters (int, list, renamed private attribute); symbolic ints; 3 debug modes; constructor called once")
    me.ob("param_kinds", "pb: bool, pc: bool, pd: bool, pe: bool, a: int, b: int, c: int, d: int, e: int, f: int",
          "return pk(pb, pc, pd, pe, a, b, c, d, e, f)", timeout=tmo,
          family="end-to-end: positional-only / keyword-only parameters with skipped optionals",
          bounds="all 8 presence subsets of 3 optional parameters (2 pos-or-kw after a defaulted pos-only, 1 kw-only), symbolic int values, 3 debug modes")
    me.ob("takes_self_factory", "pt: bool, pz: bool, pw: bool, py: bool, a: int, t: int, z: int, w: int, y: int",
          "return takes_self(pt, pz, pw, py, a, t, z, w, y)", timeout=tmo,
          family="end-to-end: optional parameters the constructor must fill itself (factory taking self) between other parameters",
          bounds="all 16 presence subsets of 4 optional parameters, symbolic int values, 3 debug modes")
    me.ob("takes_self_param_names", "pt: bool, pp: bool, pz: bool, a: int, t: int, p: int, z: int", "return takes_self_names(pt, pp, pz, a, t, p, z)", timeout=tmo,
          family="constructor-filled optional fields (attrs factory taking self) whose parameter name differs from the field id (private attribute, alias=)",
          bounds="all presence patterns of 3 optional fields; symbolic ints; 3 debug modes")
    me.ob("param_name_vs_field_id", "pb: bool, pc: bool, a: int, b: int, c: int", "return priv(pb, pc, a, b, c)", timeout=tmo,
          family="end-to-end: constructor parameter named differently from the field id (attrs private attributes)",
          bounds="keyword-only private attribute; private attribute after a skipped field; presence bits, symbolic values, 3 debug modes")
    me.ob("factories_fresh", "a: int, b: int", "return df(a, b)", timeout=tmo,
          family="end-to-end: default factories give a fresh object per load", bounds="list/dict/set factories, two loads")
    return Plan("C08", [m, me], assumptions=["constructor instrumentation via __post_init__/__init__ call log"],
                bounds={}, outside=["pydantic / sqlalchemy constructors", "values outside the look-alike pools"])
