"""C13 A generated converter equals the field-wise construction the linking rules fix."""
from vf.gen import Module, Plan

SETUP = '''
import dataclasses, inspect, typing, attr
from typing import Optional, List, Dict, Set, Sequence, NamedTuple, Any, TypedDict
from adaptix import P, ProviderNotFoundError
from adaptix.conversion import (ConversionRetort, get_converter, impl_converter, link, link_constant, link_function, coercer,
                                allow_unlinked_optional, from_param, convert)

@dataclasses.dataclass
class SIn:
    x: int
    y: str
@dataclasses.dataclass
class DIn:
    x: int
    y: str
@dataclasses.dataclass
class DIn2:
    x: int
    y: str
    r: int
@dataclasses.dataclass
class Src:
    a: int
    b: str
    c: int
    extra: int = 0
@dataclasses.dataclass
class DRen:
    a: int
    z: str
    c: int
@dataclasses.dataclass
class DAdd:
    a: int
    b: str
    k: int
    lst: list
    s: int
class DKinds:
    def __init__(self, a: int, /, b: str, *, c: int, d: int = 5):
        self.a, self.b, self.c, self.d = a, b, c, d
    def __eq__(self, o): return type(o) is DKinds and (o.a, o.b, o.c, o.d) == (self.a, self.b, self.c, self.d)
@dataclasses.dataclass
class DOptSkip:
    a: int
    o1: int = 11
    b: str = "bb"
    o2: int = 22
    c: int = 0
class DNT(NamedTuple):
    a: int
    b: str
    c: int
@attr.s(auto_attribs=True)
class DAttrs:
    a: int
    b: str
    c: int
class DTD(TypedDict):
    a: int
    b: str
    c: int
@dataclasses.dataclass
class SNest:
    inner: SIn
    opt: Optional[SIn]
    items: List[SIn]
    by_key: Dict[str, SIn]
    seq: List[int]
    a: int
@dataclasses.dataclass
class DNest:
    inner: DIn
    opt: Optional[DIn]
    items: List[DIn]
    by_key: Dict[str, DIn]
    seq: Sequence[int]
    a: int
@dataclasses.dataclass
class DNestP:
    inner: DIn2
    a: int
@dataclasses.dataclass
class DCo:
    a: str
    b: str
    c: int

@dataclasses.dataclass
class SCont:
    xs: List[int]
    ys: Set[bool]
    zs: List[List[int]]
    d: Dict[str, int]
    mp: Dict[str, int]
    sq: List[int]
@dataclasses.dataclass
class DCont:
    xs: List[Optional[int]]
    ys: Set[int]
    zs: List[List[Any]]
    d: Dict[str, Optional[int]]
    mp: typing.Mapping[str, Optional[int]]           # abstract destinations are built anew as well
    sq: typing.Sequence[Optional[int]]
R = ConversionRetort()
C_CONT = R.get_converter(SCont, DCont)
def f_len(src): return src.a + src.c + 1
C_REN = R.get_converter(Src, DRen, recipe=[link(P[Src].b, P[DRen].z)])
C_OVERLAP = R.get_converter(Src, DRen, recipe=[link(P[Src].b, P[DRen].z), link(P[Src].a, P[DRen].z, coercer=str)])     # first matching link wins
C_ADD = R.get_converter(Src, DAdd, recipe=[link_constant(P[DAdd].k, value=7), link_constant(P[DAdd].lst, factory=list), link_function(f_len, P[DAdd].s)])
C_KINDS = R.get_converter(Src, DKinds, recipe=[allow_unlinked_optional()])
C_SKIP = R.get_converter(Src, DOptSkip, recipe=[allow_unlinked_optional()])        # unlinked optionals between linked fields
C_NT = R.get_converter(Src, DNT); C_ATTRS = R.get_converter(Src, DAttrs); C_TD = R.get_converter(Src, DTD)
C_NT_BACK = R.get_converter(DNT, Src, recipe=[allow_unlinked_optional()])
C_NEST = R.get_converter(SNest, DNest)
C_CO = R.get_converter(Src, DCo, recipe=[coercer(P[Src].a, P[DCo].a, lambda v: ("a", v))])
C_LINK_CO = R.get_converter(Src, DCo, recipe=[coercer(int, str, lambda v: ("generic", v)), link(P[Src].a, P[DCo].a, coercer=lambda v: ("link", v))])

@impl_converter(recipe=[link(from_param("rating"), P[DIn2].r)])
def conv_param(src: SNest, rating: int, a: int) -> DNestP: ...
def stub_sig(src: SNest, rating: int, a: int) -> DNestP: ...
@dataclasses.dataclass
class DSame:
    a: int
    b: str
    c: int
@impl_converter
def conv_shadow(src: Src, c: int) -> DSame: ...          # a same-named extra parameter wins over the source field
@dataclasses.dataclass
class P1:
    c: int
@impl_converter
def conv_rightmost(src: Src, p1: P1, c: int) -> DSame: ...  # parameters are checked from right to left: c (param) wins

# from_param designates the converter PARAMETER also where the source model of that level has a field of the same name
@dataclasses.dataclass
class SInR:
    x: int
    rating: int
@dataclasses.dataclass
class SNestR:
    inner: SInR
    rating: int
@dataclasses.dataclass
class DInR:
    x: int
    rating: int          # same-named field of the nested source
    r: int               # the converter parameter
@dataclasses.dataclass
class DNestR:
    inner: DInR
    rating: int          # top level: a same-named parameter wins over the source field
    top: int             # from_param at the top level
@impl_converter(recipe=[link(from_param("rating"), P[DInR].r), link(from_param("rating"), P[DNestR].top)])
def conv_param_same_name(src: SNestR, rating: int) -> DNestR: ...
@impl_converter(recipe=[link(from_param("rating"), P[DInR].r), link(from_param("rating"), P[DNestR].top), link(P[SNestR].rating, P[DNestR].rating)])
def conv_param_same_name_linked(src: SNestR, rating: int) -> DNestR: ...

def mk_src(a, b, c): return Src(a, b, c, extra=a)
def mk_in(x, y): return SIn(x, y)
def mk_nest(n, x, y, isnone, a):
    n = pick(n, 3)
    return SNest(inner=SIn(x, y), opt=None if isnone else SIn(x + 1, y), items=[SIn(x + i, y) for i in range(n)],
                 by_key={"k%d" % i: SIn(x - i, y) for i in range(n)}, seq=[x] * n, a=a)
def din(s, cls=None): return (cls or DIn)(s.x, s.y)

def simple(a, b, c):
    src = mk_src(a, b, c); snap = mk_src(a, b, c)
    ok = (C_REN(src) == DRen(a, b, c) and C_OVERLAP(src) == DRen(a, b, c)
          and C_ADD(src) == DAdd(a, b, 7, [], a + c + 1) and C_ADD(src).lst is not C_ADD(src).lst
          and C_KINDS(src) == DKinds(a, b, c=c, d=5)
          and C_SKIP(src) == DOptSkip(a, 11, b, 22, c)
          and C_NT(src) == DNT(a, b, c) and type(C_NT(src)) is DNT and C_ATTRS(src) == DAttrs(a, b, c) and C_TD(src) == {"a": a, "b": b, "c": c}
          and C_NT_BACK(DNT(a, b, c)) == Src(a, b, c, 0)
          and C_CO(src) == DCo(("a", a), b, c) and C_LINK_CO(src) == DCo(("link", a), b, c)
          and conv_shadow(src, c + 1) == DSame(a, b, c + 1)
          and conv_rightmost(src, P1(c + 2), c + 1) == DSame(a, b, c + 1))
    return ok and src == snap                   # the source object is left unmodified

def nested(n, x, y, isnone, a, rating):
    src = mk_nest(n, x, y, isnone, a); snap = mk_nest(n, x, y, isnone, a)
    out = C_NEST(src)
    exp = DNest(inner=din(src.inner), opt=None if src.opt is None else din(src.opt), items=[din(s) for s in src.items],
                by_key={k: din(s) for k, s in src.by_key.items()}, seq=tuple(src.seq), a=a)
    if out != exp or type(out.seq) is not tuple: return False
    if out.items is src.items or out.by_key is src.by_key or (src.items and out.items[0] is src.items[0]): return False   # coerced recursively, new containers
    p = conv_param(src, rating, a + 5)
    if p != DNestP(inner=DIn2(src.inner.x, src.inner.y, rating), a=a + 5): return False       # from_param reaches the nested level; param `a` shadows src.a
    sr = SNestR(SInR(x, y), a)
    if conv_param_same_name(sr, rating) != DNestR(DInR(x, y, rating), rating, rating): return False
    if conv_param_same_name_linked(sr, rating) != DNestR(DInR(x, y, rating), a, rating): return False      # an explicit link to the source field beats the parameter
    return src == snap

def containers(n, x, b):
    """element-wise converted containers are new objects even when every element is passed as is (only equal types are as-is)"""
    n = pick(n, 3)
    src = SCont(xs=[x] * n, ys={b}, zs=[[x]] * n, d={"k": x}, mp={"m": x}, sq=[x] * n)
    out = C_CONT(src)
    if out != DCont(xs=[x] * n, ys={b}, zs=[[x]] * n, d={"k": x}, mp={"m": x}, sq=tuple([x] * n)): return False
    if out.xs is src.xs or out.ys is src.ys or out.zs is src.zs or out.d is src.d or out.mp is src.mp or out.sq is src.sq: return False
    if n and out.zs[0] is src.zs[0]: return False
    out2 = C_CONT(src)
    if out2.mp is out.mp or out2.d is out.d or out2.xs is out.xs: return False          # nor do two results share a container
    out.xs.append(None); out.d["new"] = None
    if isinstance(out.mp, dict): out.mp["new"] = None
    return src == SCont(xs=[x] * n, ys={b}, zs=[[x]] * n, d={"k": x}, mp={"m": x}, sq=[x] * n)

# coercers aimed at a generic position: dict keys (0), dict values (1), list elements (0)
@dataclasses.dataclass
class SGen:
    d: Dict[str, int]
    l: List[int]
    dd: Dict[str, Dict[str, int]]
@dataclasses.dataclass
class DGen:
    d: Dict[str, int]
    l: List[int]
    dd: Dict[str, Dict[str, int]]
def g_val(v): return v * 2 + 1
def g_key(k): return k + "!"
def g_el(v): return v * 3 + 1
C_GVAL = R.get_converter(SGen, DGen, recipe=[coercer(P[dict].generic_arg(1, int), P[dict].generic_arg(1, int), g_val)])
C_GKEY = R.get_converter(SGen, DGen, recipe=[coercer(P[dict].generic_arg(0, str), P[dict].generic_arg(0, str), g_key)])
C_GEL = R.get_converter(SGen, DGen, recipe=[coercer(P[list].generic_arg(0, int), P[list].generic_arg(0, int), g_el)])
C_GALL = R.get_converter(SGen, DGen, recipe=[coercer(P[dict].generic_arg(1, int), P[dict].generic_arg(1, int), g_val), coercer(P[dict].generic_arg(0, str), P[dict].generic_arg(0, str), g_key),
                                             coercer(P[list].generic_arg(0, int), P[list].generic_arg(0, int), g_el)])
def generic_pos(n, x, y):
    n = pick(n, 3)
    def mk(): return SGen(d={"k%d" % i: x + i for i in range(n)}, l=[y] * n, dd={"o": {"i%d" % i: y - i for i in range(n)}})
    s, snap = mk(), mk()
    ident_k, ident_v = (lambda k: k), (lambda v: v)
    def exp(fk, fv, fe):
        return DGen(d={fk(k): fv(v) for k, v in s.d.items()}, l=[fe(v) for v in s.l], dd={fk(o): {fk(k): fv(v) for k, v in inner.items()} for o, inner in s.dd.items()})
    return (C_GVAL(s) == exp(ident_k, g_val, ident_v) and C_GKEY(s) == exp(g_key, ident_v, ident_v) and C_GEL(s) == exp(ident_k, ident_v, g_el)
            and C_GALL(s) == exp(g_key, g_val, g_el) and s == snap)

# destination whose constructor parameters are named differently from its fields (attrs alias= / private attribute), and link_constant factories
import collections, itertools as _it
_counter = _it.count(1)
def next_serial(): return next(_counter)
@dataclasses.dataclass
class DFac:
    a: int
    serial: int
    q: Any
    tags: list
C_FAC = R.get_converter(Src, DFac, recipe=[link_constant(P[DFac].serial, factory=next_serial), link_constant(P[DFac].q, factory=collections.deque), link_constant(P[DFac].tags, factory=list)])
@attr.s(auto_attribs=True, kw_only=True)
class FD_AL:
    a: int
    b: int = attr.ib(alias="bee")                      # constructor parameter names differ from the field ids
    _z: int = attr.ib()
    def __eq__(self, o): return type(o) is FD_AL and (o.a, o.b, o._z) == (self.a, self.b, self._z)
@dataclasses.dataclass
class S2:
    a: int
    b: int
    c: int
C_ALIAS2 = R.get_converter(S2, FD_AL, recipe=[link(P[S2].c, P[FD_AL]._z)])
C_ALIAS_CONST2 = R.get_converter(S2, FD_AL, recipe=[link_constant(P[FD_AL]._z, value=5), link(P[S2].c, P[FD_AL].b)])
def alias_dest(a, bb, c):
    s2 = S2(a, bb, c)
    return C_ALIAS2(s2) == FD_AL(a=a, bee=bb, z=c) and C_ALIAS_CONST2(s2) == FD_AL(a=a, bee=c, z=5)
def factories_per_call(a, b, c):
    src = mk_src(a, b, c)
    o1, o2, o3 = C_FAC(src), C_FAC(src), C_FAC(src)
    if not (o1.serial < o2.serial < o3.serial and o2.serial == o1.serial + 1): return False          # the factory runs once per conversion
    if o1.q is o2.q or type(o1.q) is not collections.deque or o1.tags is o2.tags: return False
    o1.q.append(1); o1.tags.append(1)
    o4 = C_FAC(src)
    return len(o4.q) == 0 and o4.tags == [] and o4.a == a

SIG_OK = (inspect.signature(conv_param) == inspect.signature(stub_sig) and conv_param.__name__ == "conv_param")
'''

HISTORY = '''
# built natively at import (outside tracing): the call histories on shared retorts
_r1 = ConversionRetort()
H_PLAIN1 = _r1.get_converter(Src, DSame)
H_WITH1 = _r1.get_converter(Src, DSame, recipe=[link_constant(P[DSame].c, value=99)])
_r2 = ConversionRetort()
H_WITH2 = _r2.get_converter(Src, DSame, recipe=[link_constant(P[DSame].c, value=99)])
H_PLAIN2 = _r2.get_converter(Src, DSame)
_r3 = ConversionRetort()
def _refused(fn):
    try: fn()
    except ProviderNotFoundError: return True
    return False
H_REFUSED_BEFORE = _refused(lambda: _r3.get_converter(Src, DCo))          # int -> str without a coercer
H_OK3 = _r3.get_converter(Src, DCo, recipe=[coercer(int, str, lambda v: ("x", v))])
H_REFUSED_AFTER = _refused(lambda: _r3.get_converter(Src, DCo))           # ... and still refused afterwards
def history(a, b, c):
    \"\"\"the converter for a pair depends on the recipe of THIS call only (plain first then recipe, and recipe first then plain)\"\"\"
    src = mk_src(a, b, c)
    return (H_PLAIN1(src) == DSame(a, b, c) and H_WITH1(src) == DSame(a, b, 99) and H_WITH2(src) == DSame(a, b, 99)
            and H_PLAIN2(src) == DSame(a, b, c) and H_REFUSED_BEFORE and H_OK3(src) == DCo(("x", a), b, c) and H_REFUSED_AFTER)
'''

FAMILY = '''
import dataclasses, itertools
from typing import Optional, List, Dict
from adaptix import P, ProviderNotFoundError
from adaptix.conversion import ConversionRetort, impl_converter, link, link_constant, link_function, from_param

@dataclasses.dataclass
class FS:
    a: int
    b: int
    c: int
    extra: int = 0
@dataclasses.dataclass
class FD:
    a: int
    b: int
    z: int
@dataclasses.dataclass
class FOther:
    z: int
@dataclasses.dataclass
class FSN:
    inner: FS
    lst: List[FS]
    opt: Optional[FS]
    d: Dict[str, FS]
    a: int
@dataclasses.dataclass
class FDN:
    inner: FD
    lst: List[FD]
    opt: Optional[FD]
    d: Dict[str, FD]
    a: int
def f_sum(src): return src.a + src.c + 1
def co2(v): return v * 2 + 1
# token -> (target dst field, provider factory, reference value function(src, params))
TOK = {
    "La_z": ("z", lambda S=FS, D=FD: link(P[S].a, P[D].z), lambda s, ps: s.a),
    "Lb_z": ("z", lambda S=FS, D=FD: link(P[S].b, P[D].z), lambda s, ps: s.b),
    "K_z": ("z", lambda S=FS, D=FD: link_constant(P[D].z, value=7), lambda s, ps: 7),
    "F_z": ("z", lambda S=FS, D=FD: link_function(f_sum, P[D].z), lambda s, ps: s.a + s.c + 1),
    "Co_z": ("z", lambda S=FS, D=FD: link(P[S].b, P[D].z, coercer=co2), lambda s, ps: s.b * 2 + 1),
    "Q_z": ("z", lambda S=FS, D=FD: link(from_param("q"), P[D].z), lambda s, ps: ps["q"]),
    "Lc_a": ("a", lambda S=FS, D=FD: link(P[S].c, P[D].a), lambda s, ps: s.c),
    "K_b": ("b", lambda S=FS, D=FD: link_constant(P[D].b, value=9), lambda s, ps: 9),
    "decoy": (None, lambda S=FS, D=FD: link(P[S].a, P[FOther].z), None),
    "decoy2": (None, lambda S=FS, D=FD: link_constant(P[FOther].z, value=1), None),
}
def ref_fd(tokens, s, ps, top, mk=None):
    out = {}
    for f in ("a", "b", "z"):
        for t in tokens:
            if TOK[t][0] == f:
                out[f] = TOK[t][2](s, ps); break
        else:
            if top and f in ps: out[f] = ps[f]              # a same-named extra parameter wins over the source field (top level only)
            elif f != "z": out[f] = getattr(s, f)
            else: return None                                # nothing provides z: creation must be refused
    return (mk or FD)(**out)

def mk_conv(tokens, params, src_t, dst_t, tok_s=None, tok_d=None):
    ns = {}
    sig = ", ".join(["src: S"] + [p + ": int" for p in params])
    exec("def stub(" + sig + ") -> D: ...", {"S": src_t, "D": dst_t}, ns)
    return impl_converter(recipe=[TOK[t][1](tok_s or FS, tok_d or FD) for t in tokens])(ns["stub"])

ZT = ("La_z", "Lb_z", "K_z", "F_z", "Co_z")
PROGS = []          # (tokens, params)
for zs in [(z,) for z in ZT] + list(itertools.permutations(ZT, 2)):
    for la in (0, 1, 2):
        toks = (("Lc_a",) if la == 1 else ()) + zs[:1] + ("decoy",) + zs[1:] + (("Lc_a",) if la == 2 else ())
        for params in ((), ("z",), ("a", "b"), ("b", "z", "a")):
            PROGS.append((toks, params))
for params in (("q",), ("z", "q"), ("q", "a")):
    PROGS += [(("Q_z",), params), (("decoy2", "Q_z", "K_z"), params), (("K_z", "Q_z", "K_b"), params), (("Lc_a", "K_b", "Q_z"), params)]
# nothing provides z: refused unless a parameter named z exists
PROGS += [((), ()), (("decoy",), ("a",)), (("Lc_a", "K_b"), ("b",)), ((), ("z",)), (("K_b", "decoy2"), ("a", "z"))]
CONV, CERR = [], []
for _toks, _params in PROGS:
    try: CONV.append(("ok", mk_conv(_toks, _params, FS, FD)))
    except ProviderNotFoundError: CONV.append(("refused", None))
    except Exception as _e: CONV.append(("error", repr(_e)[:200])); CERR.append((_toks, _params, repr(_e)[:200]))
NP = len(PROGS)

def fam_flat(pi, a, b, c, e, p0, p1, p2):
    toks, params = PROGS[pi]
    st, conv = CONV[pi]
    s = FS(a, b, c, e); snap = FS(a, b, c, e)
    pv = [p0, p1, p2][:len(params)]
    ps = dict(zip(params, pv))
    exp = ref_fd(toks, s, ps, True)
    if exp is None: return st == "refused"
    if st != "ok": return False
    out = conv(s, *pv)
    return type(out) is FD and out == exp and s == snap

NTOKS = [("La_z",), ("K_z",), ("F_z", "La_z"), ("Co_z", "Lc_a"), ("Lc_a", "decoy", "Lb_z", "K_b"), ("Q_z",), ("K_b", "Q_z", "La_z"), ("La_z", "Q_z")]
NPARAMS = [(), ("a",), ("q",), ("q", "a"), ("z", "b")]
NPROGS = [(t, ps) for t in NTOKS for ps in NPARAMS if ("Q_z" not in t or "q" in ps)]
NCONV = []
for _toks, _params in NPROGS:
    try: NCONV.append(("ok", mk_conv(_toks, _params, FSN, FDN)))
    except ProviderNotFoundError: NCONV.append(("refused", None))
    except Exception as _e: NCONV.append(("error", repr(_e)[:200])); CERR.append((_toks, _params, repr(_e)[:200]))
NNP = len(NPROGS)

def fam_nested(pi, n, isnone, a, b, c, p0, p1):
    toks, params = NPROGS[pi]
    st, conv = NCONV[pi]
    n = pick(n, 3)
    def mk():
        return FSN(inner=FS(a, b, c, 1), lst=[FS(a + i, b, c - i) for i in range(n)], opt=None if isnone else FS(c, a, b),
                   d={"k%d" % i: FS(b, c + i, a) for i in range(n)}, a=a + 7)
    s, snap = mk(), mk()
    pv = [p0, p1][:len(params)]
    ps = dict(zip(params, pv))
    def sub(x): return ref_fd(toks, x, ps, False)            # nested level: links and from_param apply, same-named parameters do not
    if sub(s.inner) is None: return st == "refused"
    if st != "ok": return False
    exp = FDN(inner=sub(s.inner), lst=[sub(x) for x in s.lst], opt=None if s.opt is None else sub(s.opt), d={k: sub(v) for k, v in s.d.items()},
              a=ps["a"] if "a" in ps else s.a)
    out = conv(s, *pv)
    return type(out) is FDN and out == exp and s == snap and out.lst is not s.lst and out.d is not s.d

# ---- the same rules across model kinds of source and destination
import attr
from typing import NamedTuple, TypedDict
class FS_NT(NamedTuple):
    a: int
    b: int
    c: int
    extra: int = 0
@attr.s(auto_attribs=True)
class FS_AT:
    a: int
    b: int
    c: int
    extra: int = 0
class FD_NT(NamedTuple):
    a: int
    b: int
    z: int
@attr.s(auto_attribs=True)
class FD_AT:
    a: int
    b: int
    z: int
class FD_TD(TypedDict):
    a: int
    b: int
    z: int
class FD_PK:
    def __init__(self, a: int, /, b: int, *, z: int): self.a, self.b, self.z = a, b, z
    def __eq__(self, o): return type(o) is FD_PK and (o.a, o.b, o.z) == (self.a, self.b, self.z)
@dataclasses.dataclass(frozen=True)
class FD_FZ:
    z: int              # declaration order differs from the source
    b: int
    a: int
@dataclasses.dataclass
class FD_KW:
    z: int = dataclasses.field(kw_only=True)        # constructor parameter order (a, b, z) differs from the field order (z, a, b)
    a: int
    b: int
SKINDS = (FS, FS_NT, FS_AT)
DKINDS = (FD, FD_NT, FD_AT, FD_TD, FD_PK, FD_FZ, FD_KW)
def mk_dst(D):
    if D is FD_TD: return lambda **kw: dict(kw)
    if D is FD_PK: return lambda a, b, z: FD_PK(a, b, z=z)
    return lambda **kw: D(**kw)
KTOKS = [("La_z",), ("K_z",), ("F_z",), ("Co_z",), ("Lb_z", "La_z"), ("K_z", "F_z"), ("Lc_a", "decoy", "Co_z"), ("La_z", "K_b", "Lc_a"), ()]
KPARAMS = [(), ("z", "a")]
KPROGS = [(si, di, t, ps) for si in range(len(SKINDS)) for di in range(len(DKINDS)) for t in KTOKS for ps in KPARAMS]
KCONV = []
for _si, _di, _toks, _params in KPROGS:
    try: KCONV.append(("ok", mk_conv(_toks, _params, SKINDS[_si], DKINDS[_di], SKINDS[_si], DKINDS[_di])))
    except ProviderNotFoundError: KCONV.append(("refused", None))
    except Exception as _e: KCONV.append(("error", repr(_e)[:200])); CERR.append((_si, _di, _toks, _params, repr(_e)[:200]))
NKP = len(KPROGS)

def fam_kinds(pi, a, b, c, e, p0, p1):
    si, di, toks, params = KPROGS[pi]
    st, conv = KCONV[pi]
    S, D = SKINDS[si], DKINDS[di]
    s = S(a, b, c, e); snap = S(a, b, c, e)
    pv = [p0, p1][:len(params)]
    ps = dict(zip(params, pv))
    exp = ref_fd(toks, s, ps, True, mk_dst(D))
    if exp is None: return st == "refused"
    if st != "ok": return False
    out = conv(s, *pv)
    if D is FD_TD:
        if not isinstance(out, dict): return False            # (under the engine type() of a TypedDict call result is the TypedDict class)
    elif type(out) is not D: return False
    return out == exp and s == snap
'''


def build(tier, seed):
    quick = tier == "quick"
    tmo = 120 if quick else 600
    m = Module("c13_conv").pre(SETUP).pre(HISTORY)
    fam = "generated converters vs field-wise construction by the documented linking rules (source values symbolic)"
    m.ob("simple", "a: int, b: str, c: int", "return simple(a, b, c)", pre=["len(b) <= 2"], timeout=tmo, family=fam,
         bounds="model pairs: rename via link, overlapping links (recipe order), link_constant value/factory, link_function, positional-only/"
                "keyword-only/defaulted destination parameters, unlinked optionals between linked fields, NamedTuple/attrs/TypedDict destinations, "
                "coercer by type / by link (priority), parameter shadowing (rightmost first); all int/str field values")
    m.ob("nested", "n: int, x: int, y: str, isnone: bool, a: int, rating: int", "return nested(n, x, y, isnone, a, rating)",
         pre=["0 <= n <= 2", "len(y) <= 1"], timeout=tmo, family=fam,
         bounds="nested model, Optional[model], List[model], Dict[str, model], List->Sequence (tuple); containers of length <=2; from_param to a nested field")
    m.ob("containers_fresh", "n: int, x: int, b: bool", "return containers(n, x, b)", pre=["0 <= n <= 2"], timeout=tmo, family=fam,
         bounds="List[int]->List[Optional[int]], Set[bool]->Set[int], List[List[int]]->List[List[Any]], Dict[str,int]->Dict[str,Optional[int]]; results share no container with the source")
    m.ob("generic_positions", "n: int, x: int, y: int", "return generic_pos(n, x, y)", pre=["0 <= n <= 2"], timeout=tmo, family=fam,
         bounds="coercers aimed at dict keys / dict values / list elements by generic_arg position, also inside a nested dict; container length <= 2, symbolic ints")
    m.ob("alias_destination", "a: int, bb: int, c: int", "return alias_dest(a, bb, c)", timeout=tmo, family=fam,
         bounds="attrs destination with alias= and a private attribute (keyword-only): arguments are passed under the parameter names; symbolic ints")
    m.ob("constant_factories_per_call", "a: int, b: str, c: int", "return factories_per_call(a, b, c)", pre=["len(b) <= 1"], timeout=tmo, family=fam,
         bounds="link_constant(factory=...) with a counter, collections.deque and list: evaluated once per conversion, results share nothing; 4 conversions")
    m.ob("signature", "x: int", "return SIG_OK", timeout=30, family=fam, bounds="impl_converter preserves the stub's signature")
    mf = Module("c13_family").pre(FAMILY)
    mf.ob("family_creation", "x: int", "return not CERR", timeout=30, family="converter program family", bounds="creation of every program either succeeds or is refused with ProviderNotFoundError")
    import itertools as _it
    n_flat = (5 + 20) * 3 * 4 + 12 + 5
    chunk = 40
    for lo in range(0, n_flat, chunk):
        hi = min(n_flat, lo + chunk)
        mf.ob(f"family_flat_{lo:03d}", "pi: int, a: int, b: int, c: int, e: int, p0: int, p1: int, p2: int", "return fam_flat(pick(pi - %d, %d) + %d, a, b, c, e, p0, p1, p2)" % (lo, hi - lo, lo),
              pre=[f"{lo} <= pi < {hi}"], timeout=tmo, family="converter program family: first matching link / constant / function / from_param in recipe order, then parameter, then same-named field",
              bounds=f"programs {lo}..{hi - 1} of {n_flat}: every single and ordered pair of 5 providers for one destination field (link, link with coercer, link_constant, link_function), "
                     "a link overriding a same-named field before / after them, a non-matching decoy between them, 4 extra-parameter lists, from_param programs, refused programs; all values symbolic ints")
    n_nest = 5 * 5 + 3 * 2
    for lo in range(0, n_nest, 16):
        hi = min(n_nest, lo + 16)
        mf.ob(f"family_nested_{lo:02d}", "pi: int, n: int, isnone: bool, a: int, b: int, c: int, p0: int, p1: int", "return fam_nested(pick(pi - %d, %d) + %d, n, isnone, a, b, c, p0, p1)" % (lo, hi - lo, lo),
              pre=[f"{lo} <= pi < {hi}", "0 <= n <= 2"], timeout=tmo, family="converter program family, nested: links and from_param reach nested models inside Optional / List / Dict; same-named parameters only the top level",
              bounds=f"programs {lo}..{hi - 1} of {n_nest}: 8 recipes x 5 parameter lists on a model nesting the flat pair directly, in a list (len<=2), a dict and an Optional; symbolic ints")
    n_kinds = 3 * 7 * 9 * 2
    for lo in range(0, n_kinds, 54):
        hi = min(n_kinds, lo + 54)
        mf.ob(f"family_kinds_{lo:03d}", "pi: int, a: int, b: int, c: int, e: int, p0: int, p1: int", "return fam_kinds(pick(pi - %d, %d) + %d, a, b, c, e, p0, p1)" % (lo, hi - lo, lo),
              pre=[f"{lo} <= pi < {hi}"], timeout=tmo, family="converter program family across model kinds of source and destination",
              bounds=f"programs {lo}..{hi - 1} of {n_kinds}: source dataclass / NamedTuple / attrs x destination dataclass / NamedTuple / attrs / TypedDict / "
                     "class with positional-only and keyword-only parameters / frozen dataclass with another field order / dataclass whose keyword-only field is declared first x 9 recipes x 2 parameter lists; symbolic ints")
    m.ob("history", "a: int, b: str, c: int", "return history(a, b, c)", pre=["len(b) <= 1"], timeout=tmo * 2, family="converter cache vs per-call recipe",
         bounds="plain-then-recipe and recipe-then-plain on one retort; refused pair stays refused after a call with a coercer")
    return Plan("C13", [m, mf], assumptions=["expected results are written by construction from the documented linking rules"],
                bounds={}, outside=["pydantic / sqlalchemy endpoints", "link predicates matching both a parameter and a field"])
