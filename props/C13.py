"""C13 A generated converter equals the field-wise construction the linking rules fix."""
from vf.gen import Module, Plan

SETUP = '''
import dataclasses, inspect, typing, attr
from typing import Optional, List, Dict, Set, Sequence, NamedTuple, Any, TypedDict
from adaptix import P, ProviderNotFoundError
from adaptix.conversion import (ConversionRetort, get_converter, impl_converter, link, link_constant, link_function, coercer,
                                allow_unlinked_optional, from_param, convert)

@dataclasses.dataclass
class SIn:
    x: int
    y: str
@dataclasses.dataclass
class DIn:
    x: int
    y: str
@dataclasses.dataclass
class DIn2:
    x: int
    y: str
    r: int
@dataclasses.dataclass
class Src:
    a: int
    b: str
    c: int
    extra: int = 0
@dataclasses.dataclass
class DRen:
    a: int
    z: str
    c: int
@dataclasses.dataclass
class DAdd:
    a: int
    b: str
    k: int
    lst: list
    s: int
class DKinds:
    def __init__(self, a: int, /, b: str, *, c: int, d: int = 5):
        self.a, self.b, self.c, self.d = a, b, c, d
    def __eq__(self, o): return type(o) is DKinds and (o.a, o.b, o.c, o.d) == (self.a, self.b, self.c, self.d)
@dataclasses.dataclass
class DOptSkip:
    a: int
    o1: int = 11
    b: str = "bb"
    o2: int = 22
    c: int = 0
class DNT(NamedTuple):
    a: int
    b: str
    c: int
@attr.s(auto_attribs=True)
class DAttrs:
    a: int
    b: str
    c: int
class DTD(TypedDict):
    a: int
    b: str
    c: int
@dataclasses.dataclass
class SNest:
    inner: SIn
    opt: Optional[SIn]
    items: List[SIn]
    by_key: Dict[str, SIn]
    seq: List[int]
    a: int
@dataclasses.dataclass
class DNest:
    inner: DIn
    opt: Optional[DIn]
    items: List[DIn]
    by_key: Dict[str, DIn]
    seq: Sequence[int]
    a: int
@dataclasses.dataclass
class DNestP:
    inner: DIn2
    a: int
@dataclasses.dataclass
class DCo:
    a: str
    b: str
    c: int

@dataclasses.dataclass
class SCont:
    xs: List[int]
    ys: Set[bool]
    zs: List[List[int]]
    d: Dict[str, int]
@dataclasses.dataclass
class DCont:
    xs: List[Optional[int]]
    ys: Set[int]
    zs: List[List[Any]]
    d: Dict[str, Optional[int]]
R = ConversionRetort()
C_CONT = R.get_converter(SCont, DCont)
def f_len(src): return src.a + src.c + 1
C_REN = R.get_converter(Src, DRen, recipe=[link(P[Src].b, P[DRen].z)])
C_OVERLAP = R.get_converter(Src, DRen, recipe=[link(P[Src].b, P[DRen].z), link(P[Src].a, P[DRen].z, coercer=str)])     # first matching link wins
C_ADD = R.get_converter(Src, DAdd, recipe=[link_constant(P[DAdd].k, value=7), link_constant(P[DAdd].lst, factory=list), link_function(f_len, P[DAdd].s)])
C_KINDS = R.get_converter(Src, DKinds, recipe=[allow_unlinked_optional()])
C_SKIP = R.get_converter(Src, DOptSkip, recipe=[allow_unlinked_optional()])        # unlinked optionals between linked fields
C_NT = R.get_converter(Src, DNT); C_ATTRS = R.get_converter(Src, DAttrs); C_TD = R.get_converter(Src, DTD)
C_NT_BACK = R.get_converter(DNT, Src, recipe=[allow_unlinked_optional()])
C_NEST = R.get_converter(SNest, DNest)
C_CO = R.get_converter(Src, DCo, recipe=[coercer(P[Src].a, P[DCo].a, lambda v: ("a", v))])
C_LINK_CO = R.get_converter(Src, DCo, recipe=[coercer(int, str, lambda v: ("generic", v)), link(P[Src].a, P[DCo].a, coercer=lambda v: ("link", v))])

@impl_converter(recipe=[link(from_param("rating"), P[DIn2].r)])
def conv_param(src: SNest, rating: int, a: int) -> DNestP: ...
def stub_sig(src: SNest, rating: int, a: int) -> DNestP: ...
@dataclasses.dataclass
class DSame:
    a: int
    b: str
    c: int
@impl_converter
def conv_shadow(src: Src, c: int) -> DSame: ...          # a same-named extra parameter wins over the source field
@dataclasses.dataclass
class P1:
    c: int
@impl_converter
def conv_rightmost(src: Src, p1: P1, c: int) -> DSame: ...  # parameters are checked from right to left: c (param) wins

def mk_src(a, b, c): return Src(a, b, c, extra=a)
def mk_in(x, y): return SIn(x, y)
def mk_nest(n, x, y, isnone, a):
    n = pick(n, 3)
    return SNest(inner=SIn(x, y), opt=None if isnone else SIn(x + 1, y), items=[SIn(x + i, y) for i in range(n)],
                 by_key={"k%d" % i: SIn(x - i, y) for i in range(n)}, seq=[x] * n, a=a)
def din(s, cls=None): return (cls or DIn)(s.x, s.y)

def simple(a, b, c):
    src = mk_src(a, b, c); snap = mk_src(a, b, c)
    ok = (C_REN(src) == DRen(a, b, c) and C_OVERLAP(src) == DRen(a, b, c)
          and C_ADD(src) == DAdd(a, b, 7, [], a + c + 1) and C_ADD(src).lst is not C_ADD(src).lst
          and C_KINDS(src) == DKinds(a, b, c=c, d=5)
          and C_SKIP(src) == DOptSkip(a, 11, b, 22, c)
          and C_NT(src) == DNT(a, b, c) and type(C_NT(src)) is DNT and C_ATTRS(src) == DAttrs(a, b, c) and C_TD(src) == {"a": a, "b": b, "c": c}
          and C_NT_BACK(DNT(a, b, c)) == Src(a, b, c, 0)
          and C_CO(src) == DCo(("a", a), b, c) and C_LINK_CO(src) == DCo(("link", a), b, c)
          and conv_shadow(src, c + 1) == DSame(a, b, c + 1)
          and conv_rightmost(src, P1(c + 2), c + 1) == DSame(a, b, c + 1))
    return ok and src == snap                   # the source object is left unmodified

def nested(n, x, y, isnone, a, rating):
    src = mk_nest(n, x, y, isnone, a); snap = mk_nest(n, x, y, isnone, a)
    out = C_NEST(src)
    exp = DNest(inner=din(src.inner), opt=None if src.opt is None else din(src.opt), items=[din(s) for s in src.items],
                by_key={k: din(s) for k, s in src.by_key.items()}, seq=tuple(src.seq), a=a)
    if out != exp or type(out.seq) is not tuple: return False
    if out.items is src.items or out.by_key is src.by_key or (src.items and out.items[0] is src.items[0]): return False   # coerced recursively, new containers
    p = conv_param(src, rating, a + 5)
    if p != DNestP(inner=DIn2(src.inner.x, src.inner.y, rating), a=a + 5): return False       # from_param reaches the nested level; param `a` shadows src.a
    return src == snap

def containers(n, x, b):
    """element-wise converted containers are new objects even when every element is passed as is (only equal types are as-is)"""
    n = pick(n, 3)
    src = SCont(xs=[x] * n, ys={b}, zs=[[x]] * n, d={"k": x})
    out = C_CONT(src)
    if out != DCont(xs=[x] * n, ys={b}, zs=[[x]] * n, d={"k": x}): return False
    if out.xs is src.xs or out.ys is src.ys or out.zs is src.zs or out.d is src.d: return False
    if n and out.zs[0] is src.zs[0]: return False
    out.xs.append(None); out.d["new"] = None
    return src == SCont(xs=[x] * n, ys={b}, zs=[[x]] * n, d={"k": x})

SIG_OK = (inspect.signature(conv_param) == inspect.signature(stub_sig) and conv_param.__name__ == "conv_param")
'''

HISTORY = '''
# built natively at import (outside tracing): the call histories on shared retorts
_r1 = ConversionRetort()
H_PLAIN1 = _r1.get_converter(Src, DSame)
H_WITH1 = _r1.get_converter(Src, DSame, recipe=[link_constant(P[DSame].c, value=99)])
_r2 = ConversionRetort()
H_WITH2 = _r2.get_converter(Src, DSame, recipe=[link_constant(P[DSame].c, value=99)])
H_PLAIN2 = _r2.get_converter(Src, DSame)
_r3 = ConversionRetort()
def _refused(fn):
    try: fn()
    except ProviderNotFoundError: return True
    return False
H_REFUSED_BEFORE = _refused(lambda: _r3.get_converter(Src, DCo))          # int -> str without a coercer
H_OK3 = _r3.get_converter(Src, DCo, recipe=[coercer(int, str, lambda v: ("x", v))])
H_REFUSED_AFTER = _refused(lambda: _r3.get_converter(Src, DCo))           # ... and still refused afterwards
def history(a, b, c):
    \"\"\"the converter for a pair depends on the recipe of THIS call only (plain first then recipe, and recipe first then plain)\"\"\"
    src = mk_src(a, b, c)
    return (H_PLAIN1(src) == DSame(a, b, c) and H_WITH1(src) == DSame(a, b, 99) and H_WITH2(src) == DSame(a, b, 99)
            and H_PLAIN2(src) == DSame(a, b, c) and H_REFUSED_BEFORE and H_OK3(src) == DCo(("x", a), b, c) and H_REFUSED_AFTER)
'''


def build(tier, seed):
    quick = tier == "quick"
    tmo = 120 if quick else 600
    m = Module("c13_conv").pre(SETUP).pre(HISTORY)
    fam = "generated converters vs field-wise construction by the documented linking rules (source values symbolic)"
    m.ob("simple", "a: int, b: str, c: int", "return simple(a, b, c)", pre=["len(b) <= 2"], timeout=tmo, family=fam,
         bounds="model pairs: rename via link, overlapping links (recipe order), link_constant value/factory, link_function, positional-only/"
                "keyword-only/defaulted destination parameters, unlinked optionals between linked fields, NamedTuple/attrs/TypedDict destinations, "
                "coercer by type / by link (priority), parameter shadowing (rightmost first); all int/str field values")
    m.ob("nested", "n: int, x: int, y: str, isnone: bool, a: int, rating: int", "return nested(n, x, y, isnone, a, rating)",
         pre=["0 <= n <= 2", "len(y) <= 1"], timeout=tmo, family=fam,
         bounds="nested model, Optional[model], List[model], Dict[str, model], List->Sequence (tuple); containers of length <=2; from_param to a nested field")
    m.ob("containers_fresh", "n: int, x: int, b: bool", "return containers(n, x, b)", pre=["0 <= n <= 2"], timeout=tmo, family=fam,
         bounds="List[int]->List[Optional[int]], Set[bool]->Set[int], List[List[int]]->List[List[Any]], Dict[str,int]->Dict[str,Optional[int]]; results share no container with the source")
    m.ob("signature", "x: int", "return SIG_OK", timeout=30, family=fam, bounds="impl_converter preserves the stub's signature")
    m.ob("history", "a: int, b: str, c: int", "return history(a, b, c)", pre=["len(b) <= 1"], timeout=tmo * 2, family="converter cache vs per-call recipe",
         bounds="plain-then-recipe and recipe-then-plain on one retort; refused pair stays refused after a call with a coercer")
    return Plan("C13", [m], assumptions=["expected results are written by construction from the documented linking rules"],
                bounds={}, outside=["pydantic / sqlalchemy endpoints", "link predicates matching both a parameter and a field"])
