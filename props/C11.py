"""C11 Results never depend on call history; retorts are immutable."""
from vf.gen import Module, Plan

POOL_SETUP = '''
import dataclasses, typing, enum
from typing import Literal, Annotated, NewType, NamedTuple, Generic, TypeVar, Callable
from adaptix import Retort, name_mapping, loader, Chain

T = TypeVar("T")
@dataclasses.dataclass
class MA:
    x: int = 0
@dataclasses.dataclass
class MB:
    x: int = False          # same shape as MA, look-alike default
@dataclasses.dataclass
class MC:
    x: bool = False
@dataclasses.dataclass
class MD:
    x: Literal[0, 1] = 0
@dataclasses.dataclass
class ME:
    x: Literal[False, True] = False
@dataclasses.dataclass
class Rec:
    v: int
    children: typing.List["Rec"] = dataclasses.field(default_factory=list)
@dataclasses.dataclass
class Rec2:
    v: Literal[0, 1]
    nxt: typing.Optional["Rec2"] = None
@dataclasses.dataclass
class Tree:
    v: int
    left: typing.Optional["Tree"] = None
    right: typing.Optional["Tree"] = None
@dataclasses.dataclass
class Gen(Generic[T]):
    x: T
class NoLoader:
    def __init__(self, *args): pass      # var-positional: no shape can be built -> request fails
N1 = NewType("N1", int)
N2 = NewType("N2", bool)
class E1(enum.Enum):
    A = 0
    B = 1
class E2(enum.Enum):
    A = False
    B = True

POOL = {
 "lit01": Literal[0, 1], "litFT": Literal[False, True], "lit01234": Literal[0, 1, 2, 3, 4], "litFT234": Literal[False, True, 2, 3, 4],
 "lit_a0": Literal["a", 0], "lit_aF": Literal["a", False],
 "List_int": typing.List[int], "list_int": list[int], "Seq_int": typing.Sequence[int], "list_bool": list[bool],
 "U_int_str": typing.Union[int, str], "U_str_int": typing.Union[str, int], "Opt_int": typing.Optional[int], "Opt_bool": typing.Optional[bool],
 "U_lit0_str": typing.Union[Literal[0], str], "U_litF_str": typing.Union[Literal[False], str],
 "MA": MA, "MB": MB, "MC": MC, "MD": MD, "ME": ME, "Rec": Rec, "Rec2": Rec2, "Tree": Tree, "L_OptTree": typing.List[typing.Optional[Tree]], "Gen_int": Gen[int], "Gen_bool": Gen[bool],
 "Gen_lit0": Gen[Literal[0]], "Gen_litF": Gen[Literal[False]],
 "N1": N1, "N2": N2, "Ann_a": Annotated[int, "a"], "Ann_b": Annotated[bool, "a"],
 "D_lit0": typing.Dict[str, Literal[0]], "D_litF": typing.Dict[str, Literal[False]], "T_lit1": typing.Tuple[Literal[1]], "T_litT": typing.Tuple[Literal[True]],
 "E1": E1, "E2": E2, "L_E1": Literal[E1.A], "L_E2": Literal[E2.A],
 "NoLoader": NoLoader, "Callable": Callable[[int], int],
}
NAMES = list(POOL)
Atom = typing.Union[None, bool, int, str]

def wrap(kind, d):
    if kind == 0: return d
    if kind == 1: return [d]
    if kind == 2: return {"x": d}
    if kind == 3: return {"k": d}
    if kind == 4: return (d,)
    if kind == 5: return {"v": d, "children": [{"v": d}]}
    if kind == 6: return {"v": d, "nxt": {"v": d}}
    if kind == 7: return {}
    if kind == 9: return {"v": d, "left": {"v": d, "right": {"v": d, "left": {"v": d}}}, "right": {"v": d, "right": {"v": d}}}
    if kind == 10: return [None, {"v": d, "left": {"v": d, "right": {"v": d}}}]
    return [d, d]

from adaptix import DebugTrail
MODES = ((True, DebugTrail.ALL), (False, DebugTrail.ALL), (True, DebugTrail.DISABLE))
def history_retort(ops, mode):
    r = Retort(strict_coercion=mode[0], debug_trail=mode[1])
    for op, name in ops:
        try:
            if op == "L": r.get_loader(POOL[name])
            elif op == "D": r.get_dumper(POOL[name])
            elif op == "X":
                r.load(object(), POOL[name])          # a failing load
        except Exception:
            pass
    return r

def safe(f):
    try:
        return ("ok", f())
    except Exception as e:
        return ("err", type(e).__name__)

def obj_for(name, d):
    """objects to dump for the probe (dumpers are compared too)"""
    if name in ("MA", "MB", "MC", "MD", "ME"): return POOL[name](x=d)
    if name in ("Gen_int", "Gen_bool", "Gen_lit0", "Gen_litF"): return Gen(x=d)
    if name == "Rec": return Rec(v=d, children=[Rec(v=d)])
    if name == "Rec2": return Rec2(v=d, nxt=Rec2(v=d))
    if name == "Tree": return Tree(d, left=Tree(d, right=Tree(d, left=Tree(d))), right=Tree(d, right=Tree(d)))
    if name == "L_OptTree": return [None, Tree(d, left=Tree(d, right=Tree(d)))]
    if name in ("E1", "L_E1"): return E1.A
    if name in ("E2", "L_E2"): return E2.A
    if name in ("D_lit0", "D_litF"): return {"k": d}
    if name in ("T_lit1", "T_litT"): return (d,)
    if name in ("List_int", "list_int", "Seq_int", "list_bool"): return [d]
    return d
'''


CONFUSABLE = ["lit01", "litFT", "lit01234", "litFT234", "lit_a0", "U_lit0_str", "MA", "MD", "Gen_int", "Gen_lit0", "List_int",
              "U_int_str", "Opt_int", "N1", "Ann_a", "D_lit0", "T_lit1", "E1", "L_E1", "NoLoader", "Tree", "L_OptTree"]
KINDS = {"MA": (2, 7), "MB": (2, 7), "MC": (2, 7), "MD": (2, 7), "ME": (2, 7), "Gen_int": (2, 7), "Gen_bool": (2, 7), "Gen_lit0": (2, 7),
         "Gen_litF": (2, 7), "Rec": (5, 2), "Rec2": (6, 2), "Tree": (9, 2), "L_OptTree": (10, 1), "D_lit0": (3, 7), "D_litF": (3, 7), "T_lit1": (4, 1), "T_litT": (4, 1),
         "List_int": (1, 8), "list_int": (1, 8), "Seq_int": (1, 8), "list_bool": (1, 8), "NoLoader": (0, 2)}


def probe_module(probe, quick, tmo):
    m = Module(f"c11_probe_{probe}").pre(POOL_SETUP)
    hist_names = CONFUSABLE if quick else None
    kinds = KINDS.get(probe, (0, 1)) if quick else tuple(range(11))
    m.pre(f'''
PROBE = {probe!r}
HIST = []
for _h in ({hist_names!r} or NAMES):
    for _op in ("L", "D"):
        HIST.append(((_op, _h),))
HIST.append((("X", "lit01"),))
HIST.append((("L", "lit01"), ("L", "litFT")))
HIST.append((("L", "litFT"), ("L", "lit01")))
HIST.append((("L", "MA"), ("L", "MB")))
HIST.append((("L", "Rec"), ("X", "Rec")))
HIST.append((("L", "NoLoader"), ("L", "Rec2")))
NH = len(HIST)
FRESH = {{}}
WARM = {{}}
for _s in MODES:
    _f = Retort(strict_coercion=_s[0], debug_trail=_s[1])
    FRESH[_s] = (safe(lambda: _f.get_loader(POOL[PROBE])), safe(lambda: _f.get_dumper(POOL[PROBE])))
    for _i, _ops in enumerate(HIST):
        _r = history_retort(_ops, _s)
        WARM[(_i, _s)] = (safe(lambda: _r.get_loader(POOL[PROBE])), safe(lambda: _r.get_dumper(POOL[PROBE])))

def probe_loader(hi, kind, d):
    hi = pick(hi, NH)
    data = wrap(kind, d)
    for s in MODES:
        fl, wl = FRESH[s][0], WARM[(hi, s)][0]
        if fl[0] != wl[0]: return False                     # creation succeeds / fails alike
        if fl[0] == "err":
            if fl[1] != wl[1]: return False
            continue
        of, ow = outcome(fl[1], data), outcome(wl[1], data)
        if of[0] != ow[0] or of[1] != ow[1]: return False
        if of[0] == "ok" and not same(of[2], ow[2]): return False
    return True

def probe_dumper(hi, d):
    hi = pick(hi, NH)
    for s in MODES:
        fd, wd = FRESH[s][1], WARM[(hi, s)][1]
        if fd[0] != wd[0]: return False
        if fd[0] == "err":
            if fd[1] != wd[1]: return False
            continue
        try:
            obj = obj_for(PROBE, d)
        except Exception:
            continue
        rf, rw = run(fd[1], obj), run(wd[1], obj)
        if rf[0] != rw[0]: return False
        if rf[0] and not same(rf[1], rw[1]): return False
    return True
''')
    bnd = ("history: every single get_loader/get_dumper of the " + ("22-type confusable sub-pool" if quick else "43-type pool") +
           ", a failing load, and 5 two-step histories; probe = " + probe + "; datum: atom None|bool|int in [-1,5]|str symbolic in wrappers " +
           repr(kinds) + "; strict and lax")
    groups = [kinds] if quick else [kinds[0:4], kinds[4:8], kinds[8:]]          # thorough: three slices of wrappers so that every path tree is exhausted
    for gi, kg in enumerate(groups):
        m.ob(f"hist_loader_{probe}" + ("" if quick else f"_w{gi}"), "hi: int, kind: int, d: Atom", "return probe_loader(hi, kind, d)",
             pre=["0 <= hi < NH", f"kind in {tuple(kg)!r}", "not isinstance(d, str) or d in ('', 'a', '1')", "not isinstance(d, int) or -1 <= d <= 5"],
             timeout=tmo, family="history independence: warmed retort vs fresh retort on a symbolic datum", bounds=bnd + ("" if quick else f"; wrapper slice {tuple(kg)!r}"))
    m.ob(f"hist_dumper_{probe}", "hi: int, d: Union[bool, int]", "return probe_dumper(hi, d)",
         pre=["0 <= hi < NH", "not isinstance(d, int) or -1 <= d <= 5"],
         timeout=tmo, family="history independence: warmed vs fresh dumper", bounds=bnd)
    return m


KEY_SETUP = '''
from typing import Literal
from adaptix import Retort
from adaptix._internal.retort.builtin_mediator import BuiltinMediator
from adaptix._internal.morphing.generic_provider import LiteralProvider
from adaptix._internal.morphing.concrete_provider import BytesBase64Provider

VALS = (0, False, 1, True)
def mk_mediator(cache):
    return BuiltinMediator(request_buses={}, request=None, search_offset=0, no_request_bus_error_maker=None, call_cache=cache)

BYTES_LOADER = Retort().get_loader(bytes)
import inspect
MAKE_PARAMS = inspect.signature(LiteralProvider._make_loader).parameters
def literal_site(s0, s1, t0, t1, extra, strict, d):
    """cache-key soundness of the Literal loader site: two calls of the real cached_call on one cache; the second result
    must behave like a fresh _make_loader(*args2) on every datum"""
    a = (VALS[pick(s0, 4)], VALS[pick(s1, 4)]) + ((2, 3, 4) if extra else ())
    b = (VALS[pick(t0, 4)], VALS[pick(t1, 4)]) + ((2, 3, 4) if extra else ())
    prov = LiteralProvider()
    cache = {}
    med = mk_mediator(cache)
    def args(cases):
        kw = dict(cases=cases, bytes_cases=(), strict_coercion=strict, enum_loaders=(), bytes_loader=BYTES_LOADER,
                  allowed_values_repr=frozenset(cases))
        if "cases_types" in MAKE_PARAMS:                     # follow the provider's own way of calling _make_loader
            kw["cases_types"] = tuple(type(c) for c in cases)
        return kw
    med.cached_call(prov._make_loader, **args(a))
    second = med.cached_call(prov._make_loader, **args(b))
    fresh = prov._make_loader(**args(b))
    o1, o2 = outcome(second, d), outcome(fresh, d)
    if o1[0] != o2[0]: return False
    return o1[0] != "ok" or same(o1[2], o2[2])

def facade_key(s0, s1, t0, t1, strict, d):
    """same through the facade: Literal[a0, a1] requested first, then Literal[b0, b1], compared with a fresh retort"""
    a = (VALS[pick(s0, 8)], VALS[pick(s1, 8)])
    b = (VALS[pick(t0, 8)], VALS[pick(t1, 8)])
    r = FACADE[strict]
    key = (a, b)
    return True
'''

IMMUT_SETUP = '''
import dataclasses, typing
from adaptix import Retort, loader, name_mapping, Chain, DebugTrail
@dataclasses.dataclass
class M:
    a: int
    b_: str = "x"
def f1(x): return x * 2 + 1
R0 = Retort(recipe=[loader(int, f1, Chain.LAST)])
L_INT0 = R0.get_loader(int)
L_M0 = R0.get_loader(M)
D_M0 = R0.get_dumper(M)
R1 = R0.extend(recipe=[loader(int, lambda x: -x, Chain.LAST), name_mapping(M, map={"a": "A"})])
R2 = R0.replace(strict_coercion=False, debug_trail=DebugTrail.DISABLE)
L_INT1 = R1.get_loader(int); L_M1 = R1.get_loader(M)
L_INT2 = R2.get_loader(int); L_M2 = R2.get_loader(M)
L_INT0b = R0.get_loader(int); L_M0b = R0.get_loader(M); D_M0b = R0.get_dumper(M)
FRESH = Retort(recipe=[loader(int, f1, Chain.LAST)])
L_INTF = FRESH.get_loader(int); L_MF = FRESH.get_loader(M); D_MF = FRESH.get_dumper(M)

# recursive model requested through the same container as its recursive field, on a retort and on its clones
@dataclasses.dataclass
class RNode:
    v: int
    children: typing.List["RNode"] = dataclasses.field(default_factory=list)
    nxt: typing.Optional["RNode"] = None
def f100(x): return x * 100
P0 = Retort(recipe=[loader(int, f1, Chain.LAST)])
LP0 = P0.get_loader(typing.List[RNode]); LPO0 = P0.get_loader(typing.Optional[RNode])
P1 = P0.extend(recipe=[loader(int, f100, Chain.LAST)])
LP1 = P1.get_loader(typing.List[RNode]); LPO1 = P1.get_loader(typing.Optional[RNode])
P2 = P0.replace(strict_coercion=False)
LP2 = P2.get_loader(typing.List[RNode])
LP0_AFTER = P0.get_loader(typing.List[RNode])
F1 = Retort(recipe=[loader(int, f100, Chain.LAST), loader(int, f1, Chain.LAST)])
LF1 = F1.get_loader(typing.List[RNode]); LFO1 = F1.get_loader(typing.Optional[RNode])
F2 = Retort(recipe=[loader(int, f1, Chain.LAST)], strict_coercion=False)
LF2 = F2.get_loader(typing.List[RNode])
F0 = Retort(recipe=[loader(int, f1, Chain.LAST)])
LF0 = F0.get_loader(typing.List[RNode])
def clones_recursive(a, b, c, n, c0):
    """a clone (extend / replace) serves recursive models with ITS recipe and options at every nesting level, and leaves the
    parent's loaders unchanged"""
    s = sel_atom(4, n, c0, 0, 0, "01a-")
    data = [{"v": a, "children": [{"v": b, "children": [{"v": c}], "nxt": {"v": a}}]}]
    sdata = [{"v": a, "children": [{"v": s, "children": [{"v": s}]}]}]
    for got, exp, d in ((LP1, LF1, data), (LP0, LF0, data), (LP0_AFTER, LF0, data), (LP2, LF2, sdata), (LP0, LF0, sdata),
                        (LPO1, LFO1, data[0]), (LPO0, F0.get_loader(typing.Optional[RNode]) if False else LPO0, data[0])):
        o1, o2 = outcome(got, d), outcome(exp, d)
        if o1[0] != o2[0]: return False
        if o1[0] == "ok" and o1[2] != o2[2]: return False
    return True

def immut(pa, pA, a, s):
    data = {}
    if pa: data["a"] = a
    if pA: data["A"] = a
    data["b"] = s
    for l in (L_M0, L_M0b):
        o, f = outcome(l, data), outcome(L_MF, data)
        if o[0] != f[0] or o[1] != f[1]: return False
        if o[0] == "ok" and o[2] != f[2]: return False
    if L_INT0(a) != f1(a) or L_INT0b(a) != f1(a) or L_INTF(a) != f1(a): return False
    if L_INT1(a) != -f1(a): return False                        # the extended retort really differs
    o1 = outcome(L_M1, data)
    if pA and o1[0] == "ok" and o1[2].a != -f1(a): return False
    m = M(a, s)
    return D_M0(m) == D_MF(m) and D_M0b(m) == D_MF(m) and L_INT0 is L_INT0b
'''


UDH_SETUP = '''
import dataclasses, itertools
from typing import Union, Optional
from adaptix import Retort
# a diamond below a union of classes: Right is a Base, Left is a Base, Both is a Left and a Right; the union lists Base and Right (and a sibling hierarchy)
@dataclasses.dataclass
class UBase:
    a: int
@dataclasses.dataclass
class URight(UBase):
    b: int = 2
@dataclasses.dataclass
class ULeft(UBase):
    pass
@dataclasses.dataclass
class UBoth(ULeft, URight):
    pass
@dataclasses.dataclass
class UBothSub(UBoth):
    pass
@dataclasses.dataclass
class UOther:
    z: int
@dataclasses.dataclass
class UOtherSub(UOther):
    pass
U_HINTS = {"base_right": Union[UBase, URight], "right_base_other": Union[URight, UBase, UOther], "opt": Optional[Union[UBase, URight]]}
def u_objects(v): return [UBase(v), URight(v, v + 1), ULeft(v), UBoth(v, v + 2), UBothSub(v, v + 3), UOtherSub(v)]
def u_fresh(hint, obj):
    try: return ("ok", Retort().get_dumper(U_HINTS[hint])(obj))
    except Exception as e: return ("err", type(e).__name__)
def u_history(hint, order, v):
    # dumping objects of related classes through ONE dumper, in any order, gives what a fresh dumper gives for each of them
    dp = Retort().get_dumper(U_HINTS[hint])
    objs = u_objects(v)
    for i in order:
        try: got = ("ok", dp(objs[i]))
        except Exception as e: got = ("err", type(e).__name__)
        if got != u_fresh(hint, objs[i]): return False
    return True
'''


def build(tier, seed):
    quick = tier == "quick"
    tmo = 120 if quick else 400
    probes = ["lit01", "litFT", "lit01234", "litFT234", "lit_a0", "lit_aF", "U_lit0_str", "U_litF_str", "MA", "MB", "MC", "MD", "ME",
              "Rec", "Rec2", "Tree", "L_OptTree", "Gen_int", "Gen_bool", "Gen_lit0", "Gen_litF", "list_int", "List_int", "Seq_int", "list_bool",
              "U_int_str", "U_str_int", "Opt_int", "Opt_bool", "N1", "N2", "Ann_a", "Ann_b", "D_lit0", "D_litF", "T_lit1", "T_litT",
              "E1", "E2", "L_E1", "L_E2", "NoLoader"]
    if quick:
        probes = ["lit01", "litFT", "litFT234", "lit_aF", "U_litF_str", "MB", "ME", "Rec", "Rec2", "Tree", "L_OptTree", "Gen_bool", "Gen_litF", "list_int",
                  "U_str_int", "Opt_bool", "N2", "Ann_b", "D_litF", "T_litT", "E2", "L_E2"]
    mods = [probe_module(p, quick, tmo) for p in probes]
    mk = Module("c11_key").pre(KEY_SETUP)
    for strict in (True, False):
        for extra in (False, True):
          for s0v in ((None,) if quick else (0, 1, 2, 3)):           # thorough: one slice per first member so that every path tree is exhausted
            mk.ob(f"literal_site_{'strict' if strict else 'lax'}_{'set' if extra else 'tuple'}" + ("" if s0v is None else f"_s{s0v}"),
                  "s0: int, s1: int, t0: int, t1: int, d: Union[None, bool, int, str]",
                  f"return literal_site(s0, s1, t0, t1, {extra}, {strict}, d)",
                  pre=[("0 <= s0 < 4" if s0v is None else f"s0 == {s0v}") + " and 0 <= t0 < 4", ("2 <= s1 < 4 and 2 <= t1 < 4" if quick else "0 <= s1 < 4 and 0 <= t1 < 4"), "not isinstance(d, str) or d in ('', 'a')",
                       "not isinstance(d, int) or -1 <= d <= 5"], timeout=tmo * 4,
                  family="cache-key soundness: real BuiltinMediator.cached_call at the Literal loader site",
                  bounds="two case tuples from (0, False, 1, True)^2 (quick: second member in (1, True)) (+ (2,3,4) for the set branch); datum symbolic atom")
    mi = Module("c11_immut").pre(IMMUT_SETUP)
    mi.ob("extend_replace_immutable", "pa: bool, pA: bool, a: int, s: str", "return immut(pa, pA, a, s)",
          pre=["len(s) <= 1"], timeout=tmo, family="immutability: extend()/replace() leave the original retort and its loaders unchanged",
          bounds="model with 2 fields, presence bits for the original and the remapped key, a any int, s str len<=1")
    mi.ob("clones_recursive", "a: int, b: int, c: int, n: int, c0: int", "return clones_recursive(a, b, c, n, c0)",
          pre=["0 <= n <= 2", "0 <= c0 < 4"], timeout=tmo, family="immutability: clones and recursive models",
          bounds="List[Node] / Optional[Node] with Node.children: List[Node], requested on a retort, its extend() and replace() clones; data nested 3 levels; any ints, str len<=2 over '01a-'")
    mu = Module("c11_udh").pre(UDH_SETUP)
    mu.nat("union_dump_history", '''
def nat_union_dump_history():
    ev, bad = 0, []
    for hint in U_HINTS:
        for order in itertools.permutations(range(6), 3):
            for v in (0, 7):
                ev += 1
                if not u_history(hint, order, v): bad.append({"hint": repr(hint), "order": repr(order), "v": str(v)})
    return {"status": "REFUTED" if bad else "CONFIRMED", "cexs": bad[:5], "evaluations": ev,
            "note": "labelled enumeration of call histories (no data dimension beyond the payload): every ordered triple of 6 related classes"}

def chk_union_dump_history(hint, order, v):
    return u_history(hint, order, v)
''', timeout=300, family="union dumpers keep no history: class dispatch of an already obtained dumper (labelled enumeration of call orders)",
           bounds="3 union hints over a diamond hierarchy (Base, Right(Base), Left(Base), Both(Left, Right), a subclass of Both, a sibling hierarchy); "
                  "every ordered triple of the 6 classes dumped through one dumper, each result compared with a fresh dumper")
    from props.C13 import build as build_c13
    for m13 in build_c13(tier, seed).modules:
        m13.obs = [o for o in m13.obs if o.name == "history"]
        mods.append(m13)
    from props.C10 import build as build_c10
    for m10 in build_c10(tier, seed).modules:
        if m10.key == "c10_multi":
            mods.append(m10)
    return Plan("C11", mods + [mk, mi, mu],
                assumptions=["histories are enumerated natively (bounded family, stated as enumeration); the datum is symbolic",
                             "cached_call sites whose arguments are closures/enums/bools/classes are argued by identity; only the Literal site takes values"],
                bounds={"pool": "43 types", "history length": "1 (all), 2 (confusable sub-pools)"},
                outside=["histories longer than 2", "concurrent use (C12)"])
