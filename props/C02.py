from vf.gen import Plan, Module
from props.fam_l1 import l1_loader_module
from props.fam_l3 import l3_module
from props.fam_l2 import l2_module, l2_dump_module


def build(tier, seed):
    mods = [l1_loader_module("C02", tier), l2_module("C02", tier), l2_dump_module("C02", tier)]
    mods.append(l3_module("C02", tier))
    from props.fam_litenum import litenum_module
    mods.append(litenum_module("C02", tier))
    mn = Module("c02_unwrap").pre('''
from typing import NewType, Annotated
from adaptix import Retort, loader, dumper
Cents = NewType("Cents", int)
Price = NewType("Price", Cents)
Deep = NewType("Deep", Price)
Plain = NewType("Plain", int)
def lc(x): return ("cents", x)
def dc(x): return ("dumped", x)
RN = {dt: Retort(recipe=[loader(Cents, lc), dumper(Cents, dc)], debug_trail=dt) for dt in DT_MODES}
TS = {"Cents": Cents, "Price": Price, "Deep": Deep, "AnnPrice": Annotated[Price, "m"], "ListPrice": List[Price], "OptDeep": Optional[Deep], "Plain": Plain}
LN = {(n, dt): r.get_loader(t) for n, t in TS.items() for dt, r in RN.items()}
DN = {(n, dt): r.get_dumper(t) for n, t in TS.items() for dt, r in RN.items()}
def unwrap(x):
    """a NewType behaves as its origin type INCLUDING user providers registered for an intermediate NewType; Annotated is transparent"""
    for dt in DT_MODES:
        for n in ("Cents", "Price", "Deep", "AnnPrice"):
            if LN[(n, dt)](x) != ("cents", x) or DN[(n, dt)](x) != ("dumped", x): return False
        if LN[("ListPrice", dt)]([x, x]) != [("cents", x), ("cents", x)] or DN[("ListPrice", dt)]([x]) != [("dumped", x)]: return False
        if LN[("OptDeep", dt)](x) != ("cents", x) or LN[("OptDeep", dt)](None) is not None: return False
        if LN[("Plain", dt)](x) != x or DN[("Plain", dt)](x) != x: return False
    return True
''')
    mn.ob("newtype_chain", "x: int", "return unwrap(x)", timeout=60, family="NewType chains / Annotated unwrapping with a provider on an intermediate NewType",
          bounds="3-level NewType chain, Annotated, List, Optional; x any int")
    mods.append(mn)
    from props.C15 import build as build_c15
    for m15 in build_c15(tier, seed).modules:
        if m15.key == "c15_literal":
            m15.obs = [o for o in m15.obs if o.name.startswith("lit_loader_")]
            mods.append(m15)
    return Plan("C02", mods, assumptions=["CrossHair models of builtins (floats as reals: numeric boundary regions are owned by the E2 kernels)"],
                bounds={}, outside=["strings longer than the bound"])
