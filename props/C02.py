from vf.gen import Plan
from props.fam_l1 import l1_loader_module
from props.fam_l2 import l2_module, l2_dump_module


def build(tier, seed):
    mods = [l1_loader_module("C02", tier), l2_module("C02", tier), l2_dump_module("C02", tier)]
    return Plan("C02", mods, assumptions=["CrossHair models of builtins (floats as reals: numeric boundary regions are owned by the E2 kernels)"],
                bounds={}, outside=["strings longer than the bound"])
