from vf.gen import Plan, Module
from props.fam_l1 import l1_loader_module
from props.fam_l3 import l3_module
from props.fam_l2 import l2_module, l2_dump_module


def build(tier, seed):
    mods = [l1_loader_module("C02", tier), l2_module("C02", tier), l2_dump_module("C02", tier)]
    mods.append(l3_module("C02", tier))
    from props.fam_litenum import litenum_module
    mods.append(litenum_module("C02", tier))
    mn = Module("c02_unwrap").pre('''
from typing import NewType, Annotated
from adaptix import Retort, loader, dumper
Cents = NewType("Cents", int)
Price = NewType("Price", Cents)
Deep = NewType("Deep", Price)
Plain = NewType("Plain", int)
def lc(x): return ("cents", x)
def dc(x): return ("dumped", x)
RN = {dt: Retort(recipe=[loader(Cents, lc), dumper(Cents, dc)], debug_trail=dt) for dt in DT_MODES}
TS = {"Cents": Cents, "Price": Price, "Deep": Deep, "AnnPrice": Annotated[Price, "m"], "ListPrice": List[Price], "OptDeep": Optional[Deep], "Plain": Plain}
LN = {(n, dt): r.get_loader(t) for n, t in TS.items() for dt, r in RN.items()}
DN = {(n, dt): r.get_dumper(t) for n, t in TS.items() for dt, r in RN.items()}
def unwrap(x):
    """a NewType behaves as its origin type INCLUDING user providers registered for an intermediate NewType; Annotated is transparent"""
    for dt in DT_MODES:
        for n in ("Cents", "Price", "Deep", "AnnPrice"):
            if LN[(n, dt)](x) != ("cents", x) or DN[(n, dt)](x) != ("dumped", x): return False
        if LN[("ListPrice", dt)]([x, x]) != [("cents", x), ("cents", x)] or DN[("ListPrice", dt)]([x]) != [("dumped", x)]: return False
        if LN[("OptDeep", dt)](x) != ("cents", x) or LN[("OptDeep", dt)](None) is not None: return False
        if LN[("Plain", dt)](x) != x or DN[("Plain", dt)](x) != x: return False
    return True
''')
    mn.ob("newtype_chain", "x: int", "return unwrap(x)", timeout=60, family="NewType chains / Annotated unwrapping with a provider on an intermediate NewType",
          bounds="3-level NewType chain, Annotated, List, Optional; x any int")
    mn.nat("dump_declared_class", '''
import ipaddress, uuid, pathlib, datetime as _dtm, decimal, fractions
class MyUUID(uuid.UUID):
    def __str__(self): return "my-" + super().__str__()
class MyDecimal(decimal.Decimal):
    def __str__(self): return "D(" + super().__str__() + ")"
class MyFraction(fractions.Fraction):
    def __str__(self): return "F"
class MyDate(_dtm.date):
    def isoformat(self): return "never"
DECL = (
    (ipaddress.IPv4Address, ipaddress.IPv4Interface("192.168.1.7/24"), "192.168.1.7"),
    (ipaddress.IPv6Address, ipaddress.IPv6Interface("::1/64"), "::1"),
    (uuid.UUID, MyUUID(int=5), "00000000-0000-0000-0000-000000000005"),
    (decimal.Decimal, MyDecimal("1.50"), "1.50"),
    (fractions.Fraction, MyFraction(1, 3), "1/3"),
    (_dtm.date, _dtm.datetime(2024, 2, 29, 1, 2, 3), "2024-02-29"),
    (_dtm.date, MyDate(2024, 2, 29), "2024-02-29"),
    (pathlib.PurePosixPath, pathlib.PurePosixPath("/a/b"), "/a/b"),
)
DECL_RS = six_retorts()
def chk_dump_declared_class(i, wrap):
    tp, v, exp = DECL[i]
    for k, r in DECL_RS.items():
        if wrap == 0:
            if r.get_dumper(tp)(v) != exp: return False
            back = r.get_loader(tp)(r.get_dumper(tp)(v))             # the dumped form is one the loader of the DECLARED type accepts
            if type(back) is not tp: return False
        elif wrap == 1:
            if list(r.get_dumper(List[tp])([v])) != [exp]: return False
        elif wrap == 2:
            if r.get_dumper(Optional[tp])(v) != exp: return False
        else:
            if r.get_dumper(Dict[str, tp])({"k": v}) != {"k": exp}: return False
    return True
def nat_dump_declared_class():
    bad = [{"i": str(i), "wrap": str(w)} for i in range(len(DECL)) for w in range(4) if not chk_dump_declared_class(i, w)]
    return {"status": "REFUTED" if bad else "CONFIRMED", "cexs": bad[:5], "evaluations": len(DECL) * 4 * 6,
            "note": "labelled native enumeration: pooled C-level values (instances of subclasses of the declared class); no symbolic dimension"}
''', timeout=60, family="dumpers format a value by the DECLARED class: a subclass instance is dumped in the documented form of the declared type (labelled enumeration)",
           bounds="8 (declared type, subclass instance) pairs (IP interfaces under addresses, datetime under date, subclasses overriding __str__ / isoformat) bare, in List, Optional, Dict; 6 modes")
    mods.append(mn)
    from props.C15 import build as build_c15
    for m15 in build_c15(tier, seed).modules:
        if m15.key == "c15_literal":
            m15.obs = [o for o in m15.obs if o.name.startswith("lit_loader_")]
            mods.append(m15)
    return Plan("C02", mods, assumptions=["CrossHair models of builtins (floats as reals: numeric boundary regions are owned by the E2 kernels)"],
                bounds={}, outside=["strings longer than the bound"])
