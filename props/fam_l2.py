"""Layer 2 (DESIGN.md 4.5): container / union / tuple / dict combinators obtained through the public API with
stub children.  The reference below is written from docs/loading-and-dumping/specific-types-behavior.rst and
the documented trail rules; it is shared by C02, C04, C05, C06, C07 and C20."""
from vf.gen import Module

SETUP = '''
import collections, collections.abc, typing
from collections import deque, defaultdict
from collections.abc import Mapping as _Mapping

class KStub:
    """opaque key type of dict combinators"""

def kstub_loader(data):
    if type(data) is not int:
        raise TypeLoadError(int, data)
    if data >= 0:
        return data + 100
    if data == -2:
        raise StubUserBug("user bug in key loader")
    raise TypeLoadError(KStub, data)

RECIPE = STUB_RECIPE + [loader(KStub, kstub_loader), dumper(KStub, lambda k: k - 100)]
RS = six_retorts(RECIPE)

# name -> (type, kind, result factory)
ITERS = {
    "List": (List[Stub], list), "list": (list[Stub], list), "TupleVar": (Tuple[Stub, ...], tuple),
    "Set": (Set[Stub], set), "FrozenSet": (FrozenSet[Stub], frozenset), "Deque": (Deque[Stub], deque),
    "Iterable": (typing.Iterable[Stub], tuple), "Reversible": (typing.Reversible[Stub], tuple),
    "Collection": (typing.Collection[Stub], tuple), "Sequence": (typing.Sequence[Stub], tuple),
    "MutableSequence": (typing.MutableSequence[Stub], list), "AbstractSet": (typing.AbstractSet[Stub], frozenset),
    "MutableSet": (typing.MutableSet[Stub], set),
    # as-is children: every `== as_is_stub` shortcut of the providers
    "ListAny": (List[Any], list), "TupleVarAny": (Tuple[Any, ...], tuple), "SequenceAny": (typing.Sequence[Any], tuple),
    "DequeObject": (Deque[object], deque),
}
ANY_NAMES = ("ListAny", "TupleVarAny", "SequenceAny", "DequeObject", "DictAny", "Tuple2Any")
VAL_ANY = ("DictKAny",)
DICTS = {
    "Dict": (Dict[KStub, Stub], dict), "Mapping": (typing.Mapping[KStub, Stub], dict),
    "MutableMapping": (typing.MutableMapping[KStub, Stub], dict), "DefaultDict": (DefaultDict[KStub, Stub], defaultdict),
    "DictAny": (Dict[Any, Any], dict),
    "DictKAny": (Dict[KStub, Any], dict),          # keys are loaded, values are taken as is
}
TUPLES = {"Tuple2": (Tuple[Stub, Stub], 2), "Tuple1": (Tuple[Stub], 1), "Tuple3": (Tuple[Stub, KStub, Stub], 3), "Tuple2Any": (Tuple[Any, object], 2)}
UNIONS = {"Optional": Optional[Stub], "UnionStr": Union[Stub, str], "UnionStrNone": Union[Stub, str, None],
          "UnionK": Union[KStub, Stub]}
ALL_TYPES = {}
for _n, (_t, _f) in ITERS.items(): ALL_TYPES[_n] = _t
for _n, (_t, _f) in DICTS.items(): ALL_TYPES[_n] = _t
for _n, (_t, _f) in TUPLES.items(): ALL_TYPES[_n] = _t
for _n, _t in UNIONS.items(): ALL_TYPES[_n] = _t

_LD = {}
def LD(name, strict, dt):
    key = (name, strict, dt)
    if key not in _LD:
        _LD[key] = RS[(strict, dt)].get_loader(ALL_TYPES[name])
    return _LD[key]

for _n in ALL_TYPES:            # build every closure natively, outside tracing
    for _s in (True, False):
        for _d in DT_MODES:
            LD(_n, _s, _d)

class ListMapping(collections.abc.Mapping):
    """a Mapping that never hashes its keys (hashing would realise symbolic ints)"""
    def __init__(self, pairs): self._p = list(pairs)
    def __getitem__(self, k):
        for a, b in self._p:
            if a == k: return b
        raise KeyError(k)
    def __iter__(self): return iter([a for a, _ in self._p])
    def __len__(self): return len(self._p)
    def __eq__(self, other): return isinstance(other, ListMapping) and self._p == other._p
    def __deepcopy__(self, memo): return ListMapping(list(self._p))

def sel_codes(n, c0, c1, c2):
    """concrete stub codes in [-4, 2] by selector (for set-like results, whose hashing would realise symbolic codes)"""
    n = pick(n, 4)
    return [pick(c, 7) - 4 for c in [c0, c1, c2][:n]]

def root_data(rk: int, xs):
    """root-kind selector for sequence-shaped input"""
    if rk == 0: return list(xs)
    if rk == 1: return tuple(xs)
    if rk == 2: return ListMapping((x, i) for i, x in enumerate(xs))   # a Mapping: excluded in strict mode, iterates keys in lax
    if rk == 3: return "ab"[:len(xs)]                        # str: excluded in strict mode
    if rk == 4: return None
    if rk == 5: return 7
    if rk == 6: return iter(list(xs))                        # one-shot iterator (no len)
    if rk == 7: return deque(xs)
    return 2.5

def child_fails(c):
    return type(c) is not int or c < 0

def child_is_bug(c):
    return type(c) is int and c == -2

def kchild_fails(c):
    return type(c) is not int or c < 0

# ---------------------------------------------------------------- reference (documented behaviour)
# returns ("root_err", class_name) | ("children", [ (trail_prefix, datum, loader_kind) ... ], build)
def ref_children(name, strict, data):
    if name in ITERS:
        if strict and isinstance(data, _Mapping): return ("root_err", "ExcludedTypeLoadError")
        if strict and type(data) is str: return ("root_err", "ExcludedTypeLoadError")
        try:
            items = list(data) if not hasattr(data, "__next__") else None
        except TypeError:
            return ("root_err", "TypeLoadError")
        if items is None:
            items = "ITER"
        return ("iter", items)
    if name in DICTS:
        if not isinstance(data, _Mapping): return ("root_err", "TypeLoadError")
        return ("dict", list(data.items()))
    if name in TUPLES:
        n = TUPLES[name][1]
        if strict and isinstance(data, _Mapping): return ("root_err", "ExcludedTypeLoadError")
        if strict and type(data) is str: return ("root_err", "ExcludedTypeLoadError")
        try:
            items = list(data) if not hasattr(data, "__next__") else "ITER"
        except TypeError:
            return ("root_err", "TypeLoadError")
        if items != "ITER":
            if len(items) > n: return ("root_err", "ExtraItemsLoadError")
            if len(items) < n: return ("root_err", "NoRequiredItemsLoadError")
        return ("tuple", items)
    raise KeyError(name)

def tuple_child_kind(name, i):
    return "k" if (name == "Tuple3" and i == 1) else "v"

def cf(name, c):
    return False if name in ANY_NAMES or name in VAL_ANY else child_fails(c)
def kcf(name, c):
    return False if name in ANY_NAMES else kchild_fails(c)

def expected_failures(name, strict, data):
    """list of (container_trail_element(s), child datum, rel_trail) for every child that must fail, in input order;
    None if the reference does not apply (root error / one-shot iterator)"""
    r = ref_children(name, strict, data)
    if r[0] == "root_err" or r[1] == "ITER":
        return None
    out = []
    if r[0] == "iter":
        for i, c in enumerate(r[1]):
            if cf(name, c): out.append(((i,), c, stub_rel_trail(c) if type(c) is int else ()))
    elif r[0] == "tuple":
        for i, c in enumerate(r[1]):
            if tuple_child_kind(name, i) == "k":
                if kcf(name, c): out.append(((i,), c, ()))
            elif cf(name, c): out.append(((i,), c, stub_rel_trail(c) if type(c) is int else ()))
    elif r[0] == "dict":
        for k, v in r[1]:
            if kcf(name, k): out.append(((ItemKey(k),), k, ()))
            if cf(name, v): out.append(((k,), v, stub_rel_trail(v) if type(v) is int else ()))
    return out

def seq_bug_for(name, rk, xs):
    return False if name in ANY_NAMES else seq_bug(rk, xs)

def seq_bug(rk, xs):
    """does the datum contain a child that makes the (user supplied) stub raise a non-LoadError?"""
    return rk in (0, 1, 2, 6, 7) and any(child_is_bug(c) for c in xs)

def dict_bug_for(name, rk, k0, k1, v0, v1, n):
    if name in VAL_ANY:
        return rk in (0, 1, 6) and any(child_is_bug(k) for k in dict_data(rk, k0, k1, v0, v1, n))
    return False if name in ANY_NAMES else dict_bug(rk, k0, k1, v0, v1, n)

def dict_bug(rk, k0, k1, v0, v1, n):
    d = dict_data(rk, k0, k1, v0, v1, n)
    if rk in (0, 1, 6):
        return any(child_is_bug(k) or child_is_bug(v) for k, v in d.items())
    return False

def expected_value(name, strict, data):
    """documented result for a datum without failing children (None if the reference does not apply)"""
    r = ref_children(name, strict, data)
    if r[0] == "root_err" or r[1] == "ITER":
        return None
    if name in ANY_NAMES:
        if r[0] == "iter": return ("v", ITERS[name][1](r[1]))
        if r[0] == "tuple": return ("v", tuple(r[1]))
        return ("v", dict(r[1]))
    if r[0] == "iter":
        return ("v", ITERS[name][1](Stub(c) for c in r[1]))
    if r[0] == "tuple":
        return ("v", tuple((c + 100) if tuple_child_kind(name, i) == "k" else Stub(c) for i, c in enumerate(r[1])))
    if r[0] == "dict":
        d = {k + 100: (v if name in VAL_ANY else Stub(v)) for k, v in r[1]}
        return ("v", defaultdict(None, d) if name == "DefaultDict" else d)

def walk(data, trail):
    cur = data
    for el in trail:
        if isinstance(el, ItemKey):
            if el.key not in cur: return ("nokey",)
            cur = el.key
        elif isinstance(cur, ListMapping):
            cur = list(cur)[el]            # a mapping iterated as an iterable (lax mode): position = i-th key
        else:
            cur = cur[el] if not isinstance(cur, (set, frozenset)) else None
    return ("at", cur)

# ---------------------------------------------------------------- property bodies
def c04_l2(name, mk, bug):
    for strict in (True, False):
        for dt in DT_MODES:
            o = outcome(LD(name, strict, dt), mk())
            if o[0] == "other_exc":
                if not bug:
                    return False
            elif o[0] == "load_error" and not only_load_errors(o[2]):
                return False
    return True

def c02_l2(name, mk, bug=False):
    """value / acceptance exactly as documented (no user bug in the datum)"""
    for strict in (True, False):
        r = ref_children(name, strict, mk())
        fails = expected_failures(name, strict, mk())
        for dt in DT_MODES:
            data = mk()
            o = outcome(LD(name, strict, dt), data)
            if o[0] == "other_exc":
                continue
            if r[0] == "root_err":
                if o[0] != "load_error" or o[1] != r[1]:
                    return False
            elif fails is None:
                continue
            elif fails:
                if o[0] != "load_error":
                    return False
            else:
                exp = expected_value(name, strict, mk())
                if o[0] != "ok" or not same(o[2], exp[1]):
                    return False
                if name == "DefaultDict" and o[2].default_factory is not None:
                    return False
    return True

def c05_l2(name, mk, bug=False):
    """ALL: every failing child exactly once at [position] ++ child trail, in input order; FIRST: the first one with
    its full trail; DISABLE: the container adds nothing to the trail.  (no user bug in the datum)"""
    for strict in (True, False):
        data = mk()
        r0 = ref_children(name, strict, data)
        if r0[0] == "root_err" and not hasattr(data, "__next__"):
            # a root error sits at the root and reports the datum itself
            for dt in DT_MODES:
                o = outcome(LD(name, strict, dt), data)
                if o[0] != "load_error": return False
                ls = leaves(o[2])
                if len(ls) != 1 or ls[0][0] != (): return False
                iv = getattr(ls[0][1], "input_value", data)
                if iv is not data and not same(iv, data):
                    if not (name in TUPLES and dt != DebugTrail.DISABLE and same(tuple(iv), tuple(data))):   # known finding C06: tuple copy
                        return False
            continue
        fails = expected_failures(name, strict, data)
        if not fails:
            continue
        exp = [(pos + rel, c) for pos, c, rel in fails]
        o = outcome(LD(name, strict, DebugTrail.ALL), mk())
        if o[0] != "load_error":
            return False
        got = [(t, getattr(e, "input_value", None)) for t, e in leaves(o[2])]
        if got != exp:
            return False
        o = outcome(LD(name, strict, DebugTrail.FIRST), mk())
        if o[0] != "load_error":
            return False
        got = [(t, getattr(e, "input_value", None)) for t, e in leaves(o[2])]
        if len(got) != 1 or got[0] not in exp:          # exactly one of them, with its full trail
            return False
        o = outcome(LD(name, strict, DebugTrail.DISABLE), mk())
        if o[0] != "load_error":
            return False
        got = [(t, getattr(e, "input_value", None)) for t, e in leaves(o[2])]
        if len(got) != 1 or got[0] not in [(rel, c) for pos, c, rel in fails]:   # the container adds nothing
            return False
        # following the trail from the root reaches the offending value
        for pos, c, rel in fails:
            w = walk(data, pos)
            if w[0] != "at" or w[1] is not c and w[1] != c:
                return False
    return True

def c06_l2(name, mk, bug):
    for strict in (True, False):
        outs = [outcome(LD(name, strict, dt), mk()) for dt in DT_MODES]
        if bug:
            if any(o[0] == "ok" for o in outs) and not all(o[0] == "ok" for o in outs):
                return False
            # the modes may stop at different problems, but an exception of user code that DISABLE / FIRST let through is never turned into a
            # LoadError by ALL (it collects everything, so it has seen that exception too)
            if (outs[0][0] == "other_exc" or outs[1][0] == "other_exc") and outs[2][0] != "other_exc":
                return False
            continue
        if any(o[0] == "other_exc" for o in outs):
            continue                                   # C04's business
        if len({o[0] for o in outs}) != 1:
            return False
        if outs[0][0] == "ok":
            if not (same(outs[0][2], outs[1][2]) and same(outs[0][2], outs[2][2])):
                return False
        else:
            all_sigs = [leaf_sig(e) for _, e in leaves(outs[2][2])]
            for o in outs[:2]:
                ls = leaves(o[2])
                if len(ls) != 1 and name not in UNIONS:
                    return False
                if not all(leaf_sig(e) in all_sigs for _, e in ls):
                    return False
    return True

def c07_l2(name, mk, bug=False):
    for dt in DT_MODES:
        data = mk()
        s = outcome(LD(name, True, dt), mk())
        l = outcome(LD(name, False, dt), mk())
        if s[0] == "ok":
            if name in ITERS or name in TUPLES:
                if isinstance(data, _Mapping) or type(data) is str:
                    return False
            if l[0] != "ok" or not same(s[2], l[2]):
                return False
    return True

def c20_l2(name, data_builder):
    """argument untouched, repeat gives equal results, results fresh (no container shared between two results or
    with the argument)"""
    for strict in (True, False):
        for dt in DT_MODES:
            data = data_builder()
            snap = data_builder()                  # an independently built equal copy serves as the deep snapshot
            f = LD(name, strict, dt)
            o1 = outcome(f, data)
            if not same(data, snap):
                return False
            o2 = outcome(f, data)
            if not same(data, snap):
                return False
            if o1[0] != o2[0]:
                return False
            if o1[0] == "ok":
                if not same(o1[2], o2[2]):
                    return False
                i1, i2, ia = mutable_ids(o1[2]), mutable_ids(o2[2]), mutable_ids(data)
                if (i1 & i2) or (i1 & ia) or (i2 & ia):
                    return False
                if isinstance(o1[2], (list, dict, set, deque)) and o1[2] is o2[2]:
                    return False
    return True
'''

UNION_SETUP = '''
def c_union_ref(name, d, strict=True):
    """documented union rule: result of a case that accepts the datum; fails only if every case fails.
    Cases here do not overlap: Stub accepts ints >= 0, KStub likewise (UnionK overlaps on purpose: any accepting case may win),
    str accepts str, None accepts None."""
    acc = []
    if name in ("Optional", "UnionStr", "UnionStrNone", "UnionK") and type(d) is int and d >= 0:
        acc.append(Stub(d))
    if name == "UnionK" and type(d) is int and d >= 0:
        acc.append(d + 100)
    if name in ("UnionStr", "UnionStrNone") and (type(d) is str or not strict):
        acc.append(str(d))          # lax: str() accepts every datum, the cases overlap and any accepting case may win
    if name in ("Optional", "UnionStrNone") and d is None:
        acc.append(None)
    return acc

def union_has_bug(d):
    return type(d) is int and d == -2

def c02_union(name, d, strict):
    acc = c_union_ref(name, d, strict)
    for dt in DT_MODES:
        o = outcome(LD(name, strict, dt), d)
        if o[0] == "other_exc":
            if not union_has_bug(d): return False
            continue
        if acc:
            if o[0] != "ok" or not any(same(o[2], a) for a in acc):
                return False
        elif o[0] == "ok":
            return False
    return True

def c04_union(name, d, stricts=(True, False)):
    for strict in stricts:
        for dt in DT_MODES:
            o = outcome(LD(name, strict, dt), d)
            if o[0] == "other_exc" and not union_has_bug(d): return False
            if o[0] == "load_error" and not only_load_errors(o[2]): return False
    return True

def c05_union(name, d, stricts=(True, False)):
    """every leaf of a union error sits at the root (plus the child's own relative trail) and reports the datum"""
    for strict in stricts:
        for dt in (DebugTrail.FIRST, DebugTrail.ALL):
            o = outcome(LD(name, strict, dt), d)
            if o[0] != "load_error": continue
            ls = leaves(o[2])
            if not ls: return False
            for t, e in ls:
                iv = getattr(e, "input_value", d)
                if iv is not d and iv != d: return False
                if t not in ((), stub_rel_trail(d) if type(d) is int else ()): return False
        o = outcome(LD(name, strict, DebugTrail.DISABLE), d)
        if o[0] == "load_error" and trail_of(o[2]) not in ((), stub_rel_trail(d) if type(d) is int else ()):
            return False
    return True

def c06_union(name, d, stricts=(True, False)):
    for strict in stricts:
        outs = [outcome(LD(name, strict, dt), d) for dt in DT_MODES]
        if union_has_bug(d):
            continue
        if any(o[0] == "other_exc" for o in outs): continue
        if len({o[0] for o in outs}) != 1: return False
        if outs[0][0] == "ok" and not (same(outs[0][2], outs[1][2]) and same(outs[0][2], outs[2][2])):
            return False
    return True

def c07_union(name, d):
    for dt in DT_MODES:
        s = outcome(LD(name, True, dt), d)
        l = outcome(LD(name, False, dt), d)
        if s[0] == "ok" and (l[0] != "ok" or (not same(s[2], l[2]) and name not in ("UnionK", "UnionStr", "UnionStrNone"))):
            return False
    return True
'''

ITER_NAMES = ["List", "list", "TupleVar", "Set", "FrozenSet", "Deque", "Iterable", "Reversible", "Collection",
              "Sequence", "MutableSequence", "AbstractSet", "MutableSet", "ListAny", "TupleVarAny", "SequenceAny", "DequeObject"]
DICT_NAMES = ["Dict", "Mapping", "MutableMapping", "DefaultDict", "DictAny", "DictKAny"]
TUPLE_NAMES = ["Tuple2", "Tuple1", "Tuple3", "Tuple2Any"]
TUPLES_LEN = {"Tuple2": 2, "Tuple1": 1, "Tuple3": 3, "Tuple2Any": 2}
UNION_NAMES = ["Optional", "UnionStr", "UnionStrNone", "UnionK"]

CODE_PRE_NOBUG = "all(c >= -4 and c != -2 for c in xs)"
CODE_PRE_BUG = "all(c >= -4 for c in xs)"


def l2_module(prop: str, tier: str) -> Module:
    quick = tier == "quick"
    n = 2 if quick else 3
    tmo = 60 if quick else 300
    m = Module(f"{prop.lower()}_l2").pre(SETUP).pre(UNION_SETUP)
    iter_names = ITER_NAMES if not quick or prop in ("C02", "C04") else ["List", "TupleVar", "Set", "Deque", "Sequence", "MutableSet", "ListAny", "SequenceAny"]
    fam = "L2 combinators with stub children"
    bnd = f"children: symbolic stub codes (>=0 ok payload, -1/-3/-4 LoadError with 0/1/2-element relative trail, -2 user bug where allowed), len<= {n}; 9 root kinds; 6 modes"

    def body(kind, name):
        data = "lambda: root_data(rk, xs)"
        if prop == "C20":
            return f"return c20_l2({name!r}, {data})"
        return f"return {prop.lower()}_l2({name!r}, {data}, seq_bug_for({name!r}, rk, xs))"

    code_pre = CODE_PRE_BUG if prop in ("C04", "C06") else CODE_PRE_NOBUG
    for name in iter_names:
        rk_hi = 8
        pre = [f"len(xs) <= {n}", code_pre, f"0 <= rk <= {rk_hi}"] + (["rk != 6"] if prop == "C20" else [])
        if name in ("Set", "FrozenSet", "AbstractSet", "MutableSet"):
            # set results hash their elements: codes by selector (concrete), distinct
            lo = 0 if prop in ("C04", "C06") else 1
            b = body("iter", name).replace("xs", "sel_codes(n, c0, c1, c2)")
            m.ob(f"l2_{name}", "n: int, c0: int, c1: int, c2: int, rk: int", b,
                 pre=[f"0 <= n <= {n}", "0 <= c0 <= 6 and 0 <= c1 <= 6 and 0 <= c2 <= 6", "0 <= rk <= 8"] + (["rk != 6"] if prop == "C20" else []) + [
                      "c0 != c1 and c1 != c2 and c0 != c2"] + ([] if prop in ("C04", "C06") else ["c0 != 2 and c1 != 2 and c2 != 2"]),
                 timeout=tmo, family=fam, bounds=f"children: stub codes in [-4, 2] by selector, distinct, len<= {n}; 9 root kinds; 6 modes")
            continue
        m.ob(f"l2_{name}", "xs: List[int], rk: int", body("iter", name), pre=pre, timeout=tmo, family=fam, bounds=bnd)
    for name in TUPLE_NAMES:
        m.ob(f"l2_{name}", "xs: List[int], rk: int", body("tuple", name),
             pre=[f"len(xs) <= {TUPLES_LEN[name] + 1}", code_pre, "0 <= rk <= 8"] + (["rk != 6"] if prop == "C20" else []), timeout=tmo, family=fam, bounds=bnd)
    # dicts: keys by selector over a fixed alphabet (hashing realises symbolic keys), values symbolic
    for name in DICT_NAMES:
        dd = "dict_data(rk, k0, k1, v0, v1, n)"
        if prop == "C20":
            b = f"return c20_l2({name!r}, lambda: {dd})"
        else:
            b = f"return {prop.lower()}_l2({name!r}, lambda: {dd}, dict_bug_for({name!r}, rk, k0, k1, v0, v1, n))"
        kpre = "0 <= k0 <= 2 and 0 <= k1 <= 1" if prop in ("C04", "C06") else "1 <= k0 <= 2 and 0 <= k1 <= 1"
        vpre = "v0 >= -4 and v1 >= -4" + ("" if prop in ("C04", "C06") else " and v0 != -2 and v1 != -2")
        m.ob(f"l2_{name}", "rk: int, k0: int, k1: int, v0: int, v1: int, n: int", b,
             pre=["0 <= rk <= 6", kpre, vpre, "0 <= n <= 2"], timeout=tmo, family=fam,
             bounds="dict with <=2 items, keys from {-2 user bug,-1 LoadError,0,1} by selector (distinct), values symbolic stub codes; 7 root kinds; 6 modes")
    m.pre('''
def dict_data(rk, k0, k1, v0, v1, n):
    if rk == 1: return collections.OrderedDict({0: v0})
    if rk == 2: return [(0, v0)]
    if rk == 3: return "ab"
    if rk == 4: return None
    if rk == 5: return 7
    if rk == 6: return {"s": v0}
    keys = [pick(k0, 3) - 2, [-1, 1][pick(k1, 2)]]
    n = pick(n, 3)
    if n == 2 and keys[0] == keys[1]:
        n = 1
    d = {}
    for i in range(n):
        d[keys[i]] = [v0, v1][i]
    return d
''')
    # unions: single datum
    for name in UNION_NAMES:
        if prop in ("C20",):
            continue
        if prop == "C02":
            for strict in (True, False):
                m.ob(f"l2_{name}_{'strict' if strict else 'lax'}", "d: Union[None, bool, int, float, str, bytes]",
                     f"return c02_union({name!r}, d, {strict})",
                     pre=["not isinstance(d, (str, bytes)) or len(d) <= 2", "not isinstance(d, int) or d >= -4"] + ([] if strict else ["not isinstance(d, (float, bytes))", "not isinstance(d, int) or d <= 3"]),
                     timeout=tmo, family=fam, bounds="datum: symbolic atom (stub code when int)")
        elif prop == "C07":
            m.ob(f"l2_{name}", "d: Union[None, bool, int, str]",
                 f"return c07_union({name!r}, d)",
                 pre=["not isinstance(d, str) or len(d) <= 2", "not isinstance(d, int) or -4 <= d <= 3"],
                 timeout=tmo, family=fam, bounds="datum: None|bool|int in [-4,3] (stub code)|str len<=2")
        else:
            m.ob(f"l2_{name}_strict", "d: Union[None, bool, int, float, str, bytes]",
                 f"return {prop.lower()}_union({name!r}, d, (True,))",
                 pre=["not isinstance(d, (str, bytes)) or len(d) <= 2", "not isinstance(d, int) or d >= -4"],
                 timeout=tmo, family=fam, bounds="datum: symbolic atom (stub code when int); strict")
            m.ob(f"l2_{name}_lax", "d: Union[None, bool, int, str]",
                 f"return {prop.lower()}_union({name!r}, d, (False,))",
                 pre=["not isinstance(d, str) or len(d) <= 2", "not isinstance(d, int) or -4 <= d <= 3"],
                 timeout=tmo, family=fam, bounds="datum: None|bool|int in [-4,3] (stub code)|str len<=2; lax (str() accepts every datum)")
    return m


DUMP_SETUP = '''
class PA:
    def __init__(self, v): self.v = v
class PB(PA): pass
class PC(PB): pass
class PD(PA): pass
class Zeta:
    def __init__(self, v): self.v = v
class Eta(Zeta): pass
class EtaSub(Eta): pass
class Lone:
    def __init__(self, v): self.v = v
def bad_stub_dumper(obj):
    if obj.n == -9: raise StubUserBug("dumper bug")
    return obj.n
class KStub:
    def __init__(self, k): self.k = k
    def __eq__(self, o): return type(o) is KStub and o.k == self.k
    def __hash__(self): return self.k * 31 + 5
def sel_codes(n, c0, c1, c2):
    n = pick(n, 4)
    return [pick(c, 7) - 4 for c in [c0, c1, c2][:n]]
DRECIPE = [dumper(Stub, bad_stub_dumper), dumper(KStub, lambda k: k.k + 7),
           dumper(PA, lambda o: ("PA", o.v)), dumper(PB, lambda o: ("PB", o.v)), dumper(PD, lambda o: ("PD", o.v)),
           dumper(Zeta, lambda o: ("Zeta", o.v)), dumper(Eta, lambda o: ("Eta", o.v))]
DRS = {dt: Retort(recipe=DRECIPE, debug_trail=dt) for dt in DT_MODES}
D_ITERS = {"List": (List[Stub], list), "list": (list[Stub], list), "TupleVar": (Tuple[Stub, ...], tuple), "Set": (Set[Stub], tuple),
           "FrozenSet": (FrozenSet[Stub], tuple), "Deque": (Deque[Stub], tuple), "Iterable": (typing.Iterable[Stub], tuple),
           "Sequence": (typing.Sequence[Stub], tuple), "MutableSequence": (typing.MutableSequence[Stub], tuple), "Collection": (typing.Collection[Stub], tuple)}
D_UNIONS = {"U_PA_PB_int": (Union[PA, PB, int], (PA, PB, int)), "U_Zeta_Eta": (Union[Zeta, Eta], (Zeta, Eta)), "U_Eta_Zeta": (Union[Eta, Zeta], (Zeta, Eta)),
            "U_PA_str_none": (Union[PA, str, None], (PA, str, type(None))), "U_PD_PB": (Union[PD, PB], (PD, PB)), "Opt_PB": (Optional[PB], (PB, type(None)))}
D_TYPES = {}
for _n, (_t, _f) in D_ITERS.items(): D_TYPES[_n] = _t
for _n, (_t, _c) in D_UNIONS.items(): D_TYPES[_n] = _t
D_TYPES["DictK"] = Dict[KStub, Stub]; D_TYPES["Tuple2"] = Tuple[Stub, KStub]
DD = {(n, dt): r.get_dumper(t) for n, t in D_TYPES.items() for dt, r in DRS.items()}
OBJ_CLASSES = (PA, PB, PC, PD, Zeta, Eta, EtaSub, Lone)
TAG_OF = {PA: "PA", PB: "PB", PD: "PD", Zeta: "Zeta", Eta: "Eta"}

def dump_iter(name, xs):
    """documented outer form: list for list children, tuple for every other iterable; elements dumped in order; the three
    debug modes agree on success and result; a failing child dumper fails the dump in every mode"""
    fact = D_ITERS[name][0]
    origin = {"List": list, "list": list, "TupleVar": tuple, "Set": set, "FrozenSet": frozenset, "Deque": deque}.get(name, list)
    bug = any(x == -9 for x in xs)
    for dt in DT_MODES:
        r = run(DD[(name, dt)], origin(Stub(x) for x in xs))
        if bug:
            if r[0]: return False
            continue
        if not r[0]: return False
        if type(r[1]) is not D_ITERS[name][1]: return False
        if name in ("Set", "FrozenSet"):
            if sorted(r[1]) != sorted(set(xs)): return False
        elif list(r[1]) != list(xs): return False
    return True

def dump_dict_tuple(k, v, w):
    bug = v == -9
    for dt in DT_MODES:
        r = run(DD[("DictK", dt)], {KStub(k): Stub(v)})
        t = run(DD[("Tuple2", dt)], (Stub(v), KStub(k)))
        if bug:
            if r[0] or t[0]: return False
            continue
        if not r[0] or r[1] != {k + 7: v} or type(r[1]) is not dict: return False
        if not t[0] or t[1] != (v, k + 7) or type(t[1]) is not tuple: return False
    return True

def dump_union(name, osel, v, s):
    """union dumped by runtime class with nearest-ancestor fallback: the first class of type(obj).__mro__ that is a union case"""
    cases = D_UNIONS[name][1]
    osel = pick(osel, len(OBJ_CLASSES) + 3)
    if osel < len(OBJ_CLASSES): obj = OBJ_CLASSES[osel](v)
    elif osel == len(OBJ_CLASSES): obj = v
    elif osel == len(OBJ_CLASSES) + 1: obj = s
    else: obj = None
    owner = next((c for c in type(obj).__mro__ if c in cases), None)
    for dt in DT_MODES:
        r = run(DD[(name, dt)], obj)
        if owner is None:
            if name.startswith("Opt"): continue        # Optional[X] hands every non-None object to X's dumper (no dispatch): caller's error
            if r[0]: return False
            continue
        if not r[0]: return False
        exp = obj if owner in (int, str, type(None)) else (TAG_OF[owner], v)
        if r[1] != exp: return False
    return True

# a union that has a Literal case: only the listed values (same type) go to the literal dumper, every other object is dumped by its class,
# also when it compares equal to a listed value (Decimal(200) == 200, Fraction(1) == 1, 1.0 == 1, IntEnum member == Decimal)
import enum as _enum, base64
from decimal import Decimal as _Dec
from fractions import Fraction as _Frac
class _ULevel(_enum.IntEnum):
    LOW = 1
    HIGH = 2
UL_TYPES = {"lit_dec": Union[Literal[200, 300], _Dec], "lit_frac": Union[Literal[1, 2], _Frac], "lit_enum_dec": Union[Literal[_ULevel.LOW], _Dec],
            "lit_str_dec": Union[Literal["1", 2], _Dec, bytes], "dec_lit": Union[_Dec, Literal[200, 300]], "lit_float": Union[Literal[1, 2], float, _Dec]}
UL_RS = {dt: Retort(debug_trail=dt) for dt in DT_MODES}
UL_DD = {(n, dt): r.get_dumper(t) for n, t in UL_TYPES.items() for dt, r in UL_RS.items()}
UL_POOL = (200, 300, 1, 2, "1", _Dec(200), _Dec(201), _Dec(1), _Dec(2), _Dec("NaN"), _Dec("sNaN"), _Frac(1), _Frac(2), _Frac(1, 2), 1.0, 2.0, 0.5, b"1", _ULevel.LOW)
def dump_union_literal(name, di):
    d = UL_POOL[pick(di, len(UL_POOL))]
    members = typing.get_args(UL_TYPES[name])
    lit_cases = [c for m in members if typing.get_origin(m) is Literal for c in typing.get_args(m)]
    classes = [m for m in members if typing.get_origin(m) is not Literal]
    listed = any(type(d) is type(c) and d == c for c in lit_cases if not (isinstance(d, _Dec) and d.is_snan()))
    for dt in DT_MODES:
        r = run(UL_DD[(name, dt)], d)
        if listed:
            exp = d.value if isinstance(d, _enum.Enum) else d
        elif type(d) in classes:
            exp = str(d) if type(d) in (_Dec, _Frac) else (base64.b64encode(d).decode() if type(d) is bytes else d)
        else:
            if r[0] and r[1] is not d and not isinstance(d, (_Dec, _Frac)): return False
            if r[0] and isinstance(d, (_Dec, _Frac)): return False           # a Decimal / Fraction that no case covers is never passed through as is
            continue
        if not r[0] or type(r[1]) is not type(exp) or r[1] != exp: return False
    return True
'''


def l2_dump_module(prop: str, tier: str) -> Module:
    quick = tier == "quick"
    tmo = 60 if quick else 300
    m = Module(f"{prop.lower()}_l2dump").pre("import collections, collections.abc, typing\nfrom collections import deque, defaultdict\n").pre(DUMP_SETUP)
    fam = "L2 dumpers: documented outer form, union dispatch by runtime class, debug-mode agreement"
    for name in ["List", "list", "TupleVar", "Deque", "Iterable", "Sequence", "MutableSequence", "Collection"]:
        m.ob(f"dump_{name}", "xs: List[int]", f"return dump_iter({name!r}, xs)", pre=["len(xs) <= 3"], timeout=tmo, family=fam,
             bounds="len<=3, payloads any int (-9 makes the child dumper raise), 3 debug modes")
    for name in ["Set", "FrozenSet"]:
        m.ob(f"dump_{name}", "n: int, c0: int, c1: int, c2: int", f"return dump_iter({name!r}, sel_codes(n, c0, c1, c2))",
             pre=["0 <= n <= 3", "0 <= c0 <= 6 and 0 <= c1 <= 6 and 0 <= c2 <= 6"], timeout=tmo, family=fam, bounds="<=3 elements by selector")
    m.ob("dump_dict_tuple", "k: int, v: int, w: int", "return dump_dict_tuple(pick(k, 4), v, w)", pre=["0 <= k <= 3"], timeout=tmo, family=fam,
         bounds="Dict[K, V] and Tuple[V, K] with key and value dumpers; payload any int")
    for name in ["U_PA_PB_int", "U_Zeta_Eta", "U_Eta_Zeta", "U_PA_str_none", "U_PD_PB", "Opt_PB"]:
        m.ob(f"dump_union_{name}", "osel: int, v: int, s: str", f"return dump_union({name!r}, osel, v, s)", pre=["0 <= osel <= 10", "len(s) <= 1"],
             timeout=tmo, family=fam,
             bounds="object of 8 classes (3-level hierarchy, siblings, subclass-of-subclass, unrelated) or int / str / None; union case order both ways; payload symbolic")
    for name in ["lit_dec", "lit_frac", "lit_enum_dec", "lit_str_dec", "dec_lit", "lit_float"]:
        m.ob(f"dump_union_literal_{name}", "di: int", f"return dump_union_literal({name!r}, di)", pre=["0 <= di < 19"], timeout=tmo, family=fam,
             bounds="union with a Literal case next to Decimal / Fraction / float / bytes: 19 pooled objects incl. values equal to a listed one but of another class, NaN, sNaN; 3 debug modes")
    return m
