"""C18 Enum and Flag representations are bijections on their members."""
from vf.gen import Module, Plan, Ob

SETUP = '''
import enum, itertools
from enum import Enum, Flag, IntEnum, IntFlag, auto
from adaptix import Retort, enum_by_name, enum_by_value, enum_by_exact_value, flag_by_exact_value, flag_by_member_names, NameStyle
from adaptix import ProviderNotFoundError

class EPlain(Enum):
    A = 1
    B = 2
    C = "x"
class EStr(str, Enum):
    A = "a"
    B = "b"
class EInt(IntEnum):
    A = 1
    B = 2
class EAlias(Enum):
    A = 1
    A2 = 1
    C = 2
class EUnhash(Enum):
    A = (1, [1])
    B = (2, [2])
class EList(Enum):
    A = [1]
    B = [2]
class EMissing(Enum):
    A = "a"
    B = "b"
    @classmethod
    def _missing_(cls, value):
        if isinstance(value, str) and value.lower() != value:
            return cls(value.lower())
        return None
class EFalsy(IntEnum):
    OK = 0
    ERR = 1
class EStrEmpty(str, Enum):
    NONE = ""
    A = "a"
class ESnake(Enum):
    RED_COLOR = 1
    BLUE = 2
class ECross(str, Enum):        # mixed-in str enum whose VALUES are names of other members: a name key of `map` is equal to a member
    A = "B"
    B = "C"
    C = "A"
ENUMS = {"EPlain": EPlain, "EStr": EStr, "EInt": EInt, "EAlias": EAlias, "EUnhash": EUnhash, "EList": EList, "EMissing": EMissing, "ESnake": ESnake,
         "EFalsy": EFalsy, "EStrEmpty": EStrEmpty, "ECross": ECross}

class F3(Flag):
    A = 1
    B = 2
    C = 4
class F3c(Flag):
    A = 1
    B = 2
    C = 4
    AB = 3
    ALL = 7
class F3z(Flag):
    NONE = 0
    A = 1
    B = 2
class F2alias(Flag):
    A = 1
    B = 2
    B2 = 2
class FInt(IntFlag):
    A = 1
    B = 2
class FAuto(Flag):
    X_ONE = auto()
    Y_TWO = auto()
    BOTH = X_ONE | Y_TWO
class FMulti(Flag):         # multi-bit members whose bits have no single-bit member
    LOW = 3
    MID = 6
    HIGH = 12
class FGap(Flag):           # documented exclusion: skipped bit
    A = 1
    C = 4
FLAGS = {"F3": F3, "F3c": F3c, "F3z": F3z, "F2alias": F2alias, "FInt": FInt, "FAuto": FAuto, "FMulti": FMulti}
for _f in list(FLAGS.values()) + [FGap]:          # pre-create pseudo members outside tracing
    for _v in range(16):
        try: _f(_v)
        except ValueError: pass

def flag_mask(F):
    m = 0
    for c in F.__members__.values(): m |= c.value
    return m

def creation(fn):
    try:
        return ("ok", fn())
    except Exception as e:
        return ("err", type(e).__name__ + ": " + str(e)[:200])
'''

ENUM_PART = '''
ENUM_PROVIDERS = {
    "exact": lambda E: [enum_by_exact_value(E)],
    "default": lambda E: [],
    "name": lambda E: [enum_by_name(E)],
    "name_camel": lambda E: [enum_by_name(E, name_style=NameStyle.CAMEL)],
    "name_map": lambda E: [enum_by_name(E, map={"A": "first", list(E)[-1]: "last"})],
    "name_map_cross": lambda E: [enum_by_name(E, map={"B": "bee"})],          # renames member B only, although member A has the VALUE "B"
}
ELD, EDP, EERR = {}, {}, []
for _en, _E in ENUMS.items():
    for _pn, _mk in ENUM_PROVIDERS.items():
        if _pn == "name_camel" and _en != "ESnake": continue
        if _pn == "name_map" and _en in ("ESnake", "EFalsy", "EStrEmpty", "ECross"): continue
        if _pn == "name_map_cross" and _en != "ECross": continue
        for _s in (True, False):
            _r = Retort(recipe=_mk(_E), strict_coercion=_s)
            _c = creation(lambda: (_r.get_loader(_E), _r.get_dumper(_E)))
            if _c[0] == "ok": ELD[(_en, _pn, _s)], EDP[(_en, _pn, _s)] = _c[1]
            else: EERR.append((_en, _pn, _s, _c[1]))
for _en, _tp in (("EInt", int), ("EStr", str), ("EAlias", int)):
    for _s in (True, False):
        _r = Retort(recipe=[enum_by_value(ENUMS[_en], tp=_tp)], strict_coercion=_s)
        _c = creation(lambda: (_r.get_loader(ENUMS[_en]), _r.get_dumper(ENUMS[_en])))
        if _c[0] == "ok": ELD[(_en, "value", _s)], EDP[(_en, "value", _s)] = _c[1]
        else: EERR.append((_en, "value", _s, _c[1]))

def expected_name(E, pn, m):
    if pn == "name_camel": return {"RED_COLOR": "redColor", "BLUE": "blue"}[m.name]
    if pn == "name_map_cross": return "bee" if m.name == "B" else m.name
    if pn == "name_map":
        if m is list(E)[-1]: return "last"
        if m.name == "A": return "first"
    return m.name

def enum_roundtrip(en, pn, mi):
    """dump(member) is the documented representation and load(dump(member)) is the member (aliases are the canonical member)"""
    E = ENUMS[en]
    members = list(E.__members__.values())
    m = members[pick(mi, len(members))]
    for s in (True, False):
        if (en, pn, s) not in ELD: continue
        rep = EDP[(en, pn, s)](m)
        if pn in ("exact", "default", "value"):
            if rep != m.value or type(rep) is not type(m.value): return False
        elif rep != expected_name(E, pn, m): return False
        back = ELD[(en, pn, s)](rep)
        if back is not m: return False
    return True

def enum_reject_sel(en, pn, kind, tag, n, c0, c1):
    return enum_reject(en, pn, kind, sel_atom(tag, n, c0, c1, 0, "aAbB x12"))

def enum_reject(en, pn, kind, d):
    """the loader accepts exactly the representations of members and signals everything else with LoadError"""
    E = ENUMS[en]
    data = shape_e(kind, d)
    for s in (True, False):
        if (en, pn, s) not in ELD: continue
        reps = [EDP[(en, pn, s)](m) for m in E]
        o = outcome(ELD[(en, pn, s)], data)
        if o[0] == "other_exc": return False
        is_rep = any(type(data) is type(r) and data == r for r in reps)
        looks_like = any(eq_soft(data, r) for r in reps)
        if en == "EMissing" and isinstance(data, str) and pn in ("exact", "default"):
            looks_like = looks_like or data.lower() in ("a", "b")
        if is_rep and o[0] != "ok": return False
        if pn == "value" and not s: continue                      # lax value loader: the value type's constructor decides
        if o[0] == "ok" and not looks_like: return False
        if o[0] == "ok" and not isinstance(o[2], E): return False
    return True

def eq_soft(a, b):
    try: return bool(a == b)
    except Exception: return False

def shape_e(kind, d):
    if kind == 0: return d
    if kind == 1: return [d]
    if kind == 2: return (d, [d])
    if kind == 3: return {"k": d}
    if kind == 4: return [1]
    if kind == 5: return (1, [1])
    if kind == 6: return {1}
    if kind == 7: return bytearray(b"a")
    return None
'''

FLAG_PART = '''
OPTS = list(itertools.product((False, True), repeat=3))     # allow_single_value, allow_duplicates, allow_compound
FLD, FDP, FERR = {}, {}, []
for _fn, _F in FLAGS.items():
    for _s in (True, False):
        _r = Retort(recipe=[flag_by_exact_value(_F)], strict_coercion=_s)
        _c = creation(lambda: (_r.get_loader(_F), _r.get_dumper(_F)))
        if _c[0] == "ok": FLD[(_fn, "exact", _s)], FDP[(_fn, "exact", _s)] = _c[1]
        else: FERR.append((_fn, "exact", _s, _c[1]))
        for _o in OPTS:
            for _style in (("plain", {}), ("camel", {"name_style": NameStyle.CAMEL}), ("map", {"map": {"A": "first"}})):
                if _style[0] == "camel" and _fn != "FAuto": continue
                if _style[0] == "map" and _fn == "FAuto": continue
                _r = Retort(recipe=[flag_by_member_names(_F, allow_single_value=_o[0], allow_duplicates=_o[1], allow_compound=_o[2], **_style[1])],
                            strict_coercion=_s)
                _c = creation(lambda: (_r.get_loader(_F), _r.get_dumper(_F)))
                _key = (_fn, "names_" + _style[0], _o, _s)
                if _c[0] == "ok": FLD[_key], FDP[_key] = _c[1]
                else: FERR.append(_key + (_c[1],))
GAP = creation(lambda: Retort().get_loader(FGap))
class FNeg(Flag):
    A = 1
    N = -2
NEG = creation(lambda: Retort().get_loader(FNeg))

def union_of_members(F, v):
    ms = [c.value for c in F.__members__.values()]
    for r in range(len(ms) + 1):
        for combo in itertools.combinations(ms, r):
            acc = 0
            for x in combo: acc |= x
            if acc == v: return True
    return False

def union_of_members_from(cases, v):
    acc = 0
    for c in cases:
        if c.value & v == c.value: acc |= c.value
    return acc == v

def is_compound(c):
    return c.value != 0 and (c.value & (c.value - 1)) != 0

def out_name(F, style, c):
    if style == "camel": return {"X_ONE": "xOne", "Y_TWO": "yTwo", "BOTH": "both"}[c.name]
    if style == "map" and c.name == "A": return "first"
    return c.name

def py_accepts(F, v):
    try:
        F(v)
    except ValueError:
        return False
    return True

def flag_exact(fn, v, d):
    """exact value: dump(F(v)) == v, load(v) is F(v); every other datum -> LoadError"""
    F = FLAGS[fn]
    mask = flag_mask(F)
    for s in (True, False):
        ld, dp = FLD[(fn, "exact", s)], FDP[(fn, "exact", s)]
        if 0 <= v <= mask and py_accepts(F, v):
            m = F(v)
            if dp(m) != v: return False
            if ld(dp(m)) is not m and ld(dp(m)) != m: return False
        o = outcome(ld, d)
        if o[0] == "other_exc": return False
        valid = type(d) is int and 0 <= d <= mask and py_accepts(F, d)
        if valid != (o[0] == "ok"): return False
        if o[0] == "ok" and (o[2].value != d or type(o[2]) is not F): return False
    return True

def flag_names_roundtrip(fn, style, oi, v):
    """member-name list: dump(m) names members whose union is m (only non-compound ones unless allowed); load(dump(m)) == m"""
    F = FLAGS[fn]
    o = OPTS[pick(oi, 8)]
    v = pick(v, 16)
    if v > flag_mask(F) or not union_of_members(F, v): return True
    m = F(v)
    for s in (True, False):
        key = (fn, "names_" + style, o, s)
        if key not in FLD: continue                  # creation failures are reported by ob_creation
        names = FDP[key](m)
        if type(names) is not list: return False
        cases = [c for c in F.__members__.values() if o[2] or not is_compound(c)]
        if not o[2] and not union_of_members_from(cases, v): continue      # value not expressible without compound names
        by_out = {}
        for c in cases: by_out.setdefault(out_name(F, style, c), c)
        acc = F(0)
        for nm in names:
            if nm not in by_out: return False
            acc |= by_out[nm]
        if acc != m: return False
        if len(set(names)) != len(names): return False
        if FLD[key](names) != m: return False
        if FLD[key](tuple(reversed(names))) != m: return False
    return True

def cand_item(F, style, i):
    """candidate list items: every member's outward name, near misses, non-str and unhashable items"""
    outs = [out_name(F, style, c) for c in F.__members__.values()]
    pool = outs + ["", "a", "A ", 1, None, ["A"], 0]
    return pool[pick(i, len(pool))]

def flag_names_reject(fn, style, oi, rk, n, i0, i1, i2):
    """accepts exactly lists of valid member names (single str iff allowed; duplicates iff allowed; compound names iff allowed)"""
    F = FLAGS[fn]
    o = OPTS[pick(oi, 8)]
    n = pick(n, 4)
    items = [cand_item(F, style, i) for i in (i0, i1, i2)[:n]]
    rk = pick(rk, 7)
    if rk == 0: data = list(items)
    elif rk == 1: data = tuple(items)
    elif rk == 2: data = items[0] if items and isinstance(items[0], str) else ""
    elif rk == 3: data = {it: 1 for it in items if isinstance(it, (str, int)) or it is None}
    elif rk == 4: data = None
    elif rk == 5: data = 3
    else: data = iter(list(items))
    for s in (True, False):
        key = (fn, "names_" + style, o, s)
        if key not in FLD: continue
        cases = [c for c in F.__members__.values() if o[2] or not is_compound(c)]
        valid_names = {}
        for c in cases: valid_names.setdefault(out_name(F, style, c), c)
        if rk == 6: data = iter(list(items))
        outc = outcome(FLD[key], data)
        if outc[0] == "other_exc": return False
        # reference
        if rk in (0, 1, 6) or (rk == 3 and not s):
            seq = list(items) if rk != 3 else list(data)
            ok = all(isinstance(it, str) and it in valid_names for it in seq)
            if ok and not o[1] and len(set(seq)) != len(seq): ok = False
            exp = F(0)
            if ok:
                for it in seq: exp |= valid_names[it]
        elif rk == 2 and isinstance(data, str):
            ok = o[0] and data in valid_names
            exp = valid_names.get(data)
        else:
            ok = False
        if ok != (outc[0] == "ok"): return False
        if ok and outc[2] != exp: return False
    return True
'''

KFLAG = '''
def smt_kflag():
    \"\"\"E2 K-flag: the guards of FlagByExactValueProvider._make_loader, read from the AST of the current source, imply that a datum that
    passes the range check has no bit outside the mask -- for ALL masks below 2**63, which no enumeration of classes can give.
        mask >= 0  and  2**bit_length(mask) - 1 == mask  and  0 <= data <= mask   =>   data & ~mask == 0 \"\"\"
    import ast, inspect, textwrap, time, z3
    from adaptix._internal.morphing.enum_provider import FlagByExactValueProvider
    t0 = time.time()
    src = textwrap.dedent(inspect.getsource(FlagByExactValueProvider._make_loader))
    tree = ast.parse(src)
    W = 64
    mask, data = z3.BitVec("mask", W), z3.BitVec("data", W)
    def bit_length(x):
        r = z3.BitVecVal(0, W)
        for i in range(W):
            r = z3.If(z3.Extract(i, i, x) == 1, z3.BitVecVal(i + 1, W), r)
        return r
    env = {"flag_mask": mask, "data": data}
    guards_neg = []          # conditions under which the code refuses (raise)
    def ev(node):
        if isinstance(node, ast.Name) and node.id in env: return env[node.id]
        if isinstance(node, ast.Constant) and isinstance(node.value, int): return z3.BitVecVal(node.value, W)
        if isinstance(node, ast.BinOp):
            if isinstance(node.op, ast.Pow) and isinstance(node.left, ast.Constant) and node.left.value == 2:
                return z3.BitVecVal(1, W) << ev(node.right)
            a, b = ev(node.left), ev(node.right)
            if isinstance(node.op, ast.Sub): return a - b
            if isinstance(node.op, ast.Add): return a + b
        if isinstance(node, ast.Call) and isinstance(node.func, ast.Attribute) and node.func.attr == "bit_length":
            return bit_length(ev(node.func.value))
        raise ValueError("outside the grammar: " + ast.unparse(node)[:60])
    def cond(node):
        if isinstance(node, ast.BoolOp):
            parts = [cond(v) for v in node.values]
            return z3.Or(parts) if isinstance(node.op, ast.Or) else z3.And(parts)
        if isinstance(node, ast.Compare) and len(node.ops) == 1:
            a, b = ev(node.left), ev(node.comparators[0])
            op = node.ops[0]
            if isinstance(op, ast.Lt): return a < b
            if isinstance(op, ast.Gt): return a > b
            if isinstance(op, ast.NotEq): return a != b
            if isinstance(op, ast.Eq): return a == b
        raise ValueError("test outside the grammar: " + ast.unparse(node)[:60])
    try:
        for node in ast.walk(tree):
            if isinstance(node, ast.Assign) and isinstance(node.targets[0], ast.Name) and node.targets[0].id == "all_bits":
                env["all_bits"] = ev(node.value)
        for node in ast.walk(tree):
            if isinstance(node, ast.If) and any(isinstance(b, ast.Raise) for b in node.body):
                t = ast.unparse(node.test)
                if "type(data)" in t: continue
                guards_neg.append(cond(node.test))
    except ValueError as e:
        return {"status": "UNKNOWN", "detail": "cannot encode: %s" % (e,)}
    if len(guards_neg) < 3:
        return {"status": "UNKNOWN", "detail": "expected 3 refusing guards (negative mask, skipped bits, range), found %d" % len(guards_neg)}
    s = z3.Solver()
    s.add(mask >= 0, mask < z3.BitVecVal(2 ** 62, W), data >= 0)      # Python ints: the loader sees mathematical integers, no wrap-around below 2**62
    for g in guards_neg: s.add(z3.Not(g))
    s.add(data & ~mask != 0)
    r = str(s.check())
    rec = {"solver_queries": 1, "solver_s": round(time.time() - t0, 3), "evaluations": 1, "backend": "z3 QF_BV (64 bit)",
           "functions_encoded": ["morphing/enum_provider.py:FlagByExactValueProvider._make_loader (3 guards + all_bits)"]}
    if r == "unsat": rec["status"] = "CONFIRMED"
    elif r == "sat": rec.update(status="REFUTED", cex={"mask": str(s.model()[mask].as_long()), "data": str(s.model()[data].as_long())})
    else: rec.update(status="UNKNOWN", detail=r)
    return rec

def chk_kflag(mask, data):
    return data & ~mask == 0 or not (mask >= 0 and 2 ** mask.bit_length() - 1 == mask and 0 <= data <= mask)
'''


def kflag_module():
    m = Module("c18_kflag")
    m.fns.append(KFLAG)
    m.obs.append(Ob(name="kflag", module=m.key, kind="smt", timeout=120, family="E2 K-flag: mask / range guard of the exact-value flag loader (z3 bit-vectors)",
                    bounds="all masks and data below 2**62 (64-bit vectors); guards taken from the AST of the current source"))
    return m


def build(tier, seed):
    quick = tier == "quick"
    tmo = 90 if quick else 300
    m = Module("c18_enum").pre(SETUP).pre(ENUM_PART)
    m.ob("enum_creation", "x: int", "return not EERR", timeout=30, family="enum providers: creation",
         bounds="8 enum classes x exact/default/by-name/name_style/map/by-value x strict/lax")
    combos = [(en, pn) for en in ["EPlain", "EStr", "EInt", "EAlias", "EUnhash", "EList", "EMissing", "EFalsy", "EStrEmpty", "ECross"] for pn in ("exact", "name", "name_map")
              if not (pn == "name_map" and en in ("EFalsy", "EStrEmpty", "ECross"))]
    combos += [("ECross", "name_map_cross")]
    combos += [("ESnake", "name_camel"), ("ESnake", "exact"), ("EInt", "value"), ("EStr", "value"), ("EAlias", "value"), ("EPlain", "default")]
    for en, pn in combos:
        if (en, pn) == ("EUnhash", "exact"):
            # Enum.__call__ looks the value up in a dict first and falls back to a linear search on TypeError; CrossHair's hash() of a tuple holding a
            # list does not raise, so under the engine the fallback is never taken (counterexamples do not replay): labelled native enumeration
            m.nat(f"enum_rt_{en}_{pn}", f"""
def nat_enum_rt_{en}_{pn}():
    bad = [{{"mi": str(mi)}} for mi in range(3) if not enum_roundtrip({en!r}, {pn!r}, mi)]
    return {{"status": "REFUTED" if bad else "CONFIRMED", "cexs": bad[:5], "evaluations": 3, "note": "labelled native enumeration (engine hash model)"}}
def chk_enum_rt_{en}_{pn}(mi):
    return enum_roundtrip({en!r}, {pn!r}, mi)
""", timeout=60, family="enum round trip (labelled enumeration: unhashable member values)", bounds="every member; strict and lax; native")
            m.nat(f"enum_rej_{en}_{pn}", f"""
def nat_enum_rej_{en}_{pn}():
    bad, ev = [], 0
    for kind in range(9):
        for tag in range(6):
            for n in range(3):
                for c0 in range(9):
                    for c1 in (range(9) if tag == 4 and n == 2 else (0, 1)):
                        ev += 1
                        if not enum_reject_sel({en!r}, {pn!r}, kind, tag, n, c0, c1):
                            bad.append({{"kind": str(kind), "tag": str(tag), "n": str(n), "c0": str(c0), "c1": str(c1)}})
    return {{"status": "REFUTED" if bad else "CONFIRMED", "cexs": bad[:5], "evaluations": ev, "note": "labelled native enumeration (engine hash model)"}}
def chk_enum_rej_{en}_{pn}(kind, tag, n, c0, c1):
    return enum_reject_sel({en!r}, {pn!r}, kind, tag, n, c0, c1)
""", timeout=120, family="enum loaders accept exactly member representations (labelled enumeration: unhashable member values)",
                  bounds="the whole selector space of the sibling obligations (9 shapes x 6 atom kinds x pooled payloads), native")
            continue
        m.ob(f"enum_rt_{en}_{pn}", "mi: int", f"return enum_roundtrip({en!r}, {pn!r}, mi)", pre=["0 <= mi < 3"], timeout=tmo,
             family="enum round trip", bounds="every member incl. aliases; strict and lax")
        if en in ("EUnhash", "EList", "EMissing") or pn == "value":
            m.ob(f"enum_rej_{en}_{pn}", "kind: int, tag: int, n: int, c0: int, c1: int", f"return enum_reject_sel({en!r}, {pn!r}, kind, tag, n, c0, c1)",
                 pre=["0 <= kind <= 8", "0 <= tag <= 5", "0 <= n <= 2", "0 <= c0 < 9", "0 <= c1 < 9"], timeout=tmo * 2,
                 family="enum loaders accept exactly member representations (selector-built data: the lookup goes through Enum.__call__/C code)",
                 bounds="datum: selector-built atom (None|bool|small and huge ints|pooled floats|str over 'aAbB x12' len<=2|bytes) bare or in 8 container shapes")
            continue
        m.ob(f"enum_rej_{en}_{pn}", "kind: int, d: Union[None, bool, int, float, str, bytes]", f"return enum_reject({en!r}, {pn!r}, kind, d)",
             pre=["0 <= kind <= 8", "not isinstance(d, (str, bytes)) or len(d) <= 2"], timeout=tmo,
             family="enum loaders accept exactly member representations",
             bounds="datum: symbolic atom (str/bytes len<=2) bare or in 8 container shapes incl. unhashable ones")
    mf = Module("c18_flag").pre(SETUP).pre(FLAG_PART)
    mf.ob("flag_creation", "x: int", "return not FERR", timeout=30, family="flag providers: creation",
          bounds="6 flag classes (plain, compound, zero member, alias, IntFlag, auto) x exact + by-names option cube (8) x plain/name_style/map x strict/lax: creation must succeed")
    mf.ob("flag_excluded", "x: int", "return GAP[0] == 'err' and 'ProviderNotFoundError' in GAP[1] and NEG[0] == 'err'",
          timeout=30, family="flag providers: documented exclusions", bounds="skipped bit, negative value")
    for fn in ["F3", "F3c", "F3z", "F2alias", "FInt", "FAuto", "FMulti"]:
        mf.ob(f"flag_exact_{fn}", "v: int, d: Union[None, bool, int, float, str]", f"return flag_exact({fn!r}, v, d)",
              pre=["0 <= v <= 16", "not isinstance(d, str) or len(d) <= 1"], timeout=tmo, family="flag by exact value",
              bounds="all flag values v in [0, 2^n); candidate datum symbolic atom (all ints)")
        style = "camel" if fn == "FAuto" else "plain"
        for st in ([style] if fn in ("FAuto",) else ["plain", "map"]):
            mf.ob(f"flag_names_rt_{fn}_{st}", "oi: int, v: int", f"return flag_names_roundtrip({fn!r}, {st!r}, oi, v)",
                  pre=["0 <= oi < 8", "0 <= v < 16"], timeout=tmo, family="flag by member names: round trip",
                  bounds="all 2^n values x 8 option combinations x strict/lax")
            mf.ob(f"flag_names_rej_{fn}_{st}", "oi: int, rk: int, n: int, i0: int, i1: int, i2: int",
                  f"return flag_names_reject({fn!r}, {st!r}, oi, rk, n, i0, i1, i2)",
                  pre=["0 <= oi < 8", "0 <= rk < 7", "0 <= n <= 2", "0 <= i0 < 9 and 0 <= i1 < 9 and 0 <= i2 < 9"], timeout=tmo * 4,
                  family="flag by member names: accepts exactly valid name lists",
                  bounds="candidate: list/tuple/str/dict/None/int/iterator of <= 2 items from member names + near misses + non-str + unhashable; 8 option combinations")
            if not quick:
                # three items: one slice per option combination so that every path tree is exhausted
                for oi in range(8):
                    mf.ob(f"flag_names_rej_{fn}_{st}_n3_o{oi}", "rk: int, i0: int, i1: int, i2: int",
                          f"return flag_names_reject({fn!r}, {st!r}, {oi}, rk, 3, i0, i1, i2)",
                          pre=["0 <= rk < 7", "0 <= i0 < 9 and 0 <= i1 < 9 and 0 <= i2 < 9"], timeout=tmo * 2,
                          family="flag by member names: accepts exactly valid name lists",
                          bounds=f"candidate: list/tuple/str/dict/None/int/iterator of exactly 3 items from the 9-item pool; option combination {oi}")
    from props.C10 import build as build_c10
    extra = [m10 for m10 in build_c10(tier, seed).modules if m10.key == "c10_multi"]       # enum / flag providers given several classes at once
    return Plan("C18", [m, mf, kflag_module()] + extra, assumptions=["bool/int look-alike data for int-valued enums are not counted as non-representations (True == 1)"],
                bounds={"flag bits": "3"}, outside=["flags with more than 3 bits (K-flag covers the mask guard for all masks)", "members >= 2**53 (float log2)"])
