"""C03 Generated model loaders/dumpers honour the configured outer layout exactly."""
from vf.gen import Plan, Module
from props.fam_model import MEMBERS, member_module, LOAD_PARAMS, LOAD_ARGS, load_slices

QUICK = ["omit_stub", "plain", "rename", "nested", "camel", "skip_gt_only", "map_gt_style", "ellipsis_style", "pairs_map", "stack_override", "stack_style", "stack_ellipsis", "map_list_ellipsis",
         "forbid_rename", "forbid_nested", "kwargs", "rest_field_rename", "saturator", "omit_one", "omit_nested", "as_list_forbid", "list_gaps",
         "list_in_dict", "dict_in_list", "no_trim", "map_none", "req_two_crowns", "req_three_levels"]


def build(tier, seed):
    quick = tier == "quick"
    tmo = 120 if quick else 300
    names = QUICK if quick else list(MEMBERS)
    mods = []
    for name in names:
        m = member_module("C03", name)
        fam = "generated model loader/dumper vs documented layout (stub fields)"
        m.ob(f"builds_{name}", "x: int", "return not BUILD_ERRORS", timeout=30, family=fam, bounds="6 loaders + 3 dumpers of the member")
        for sl, pre in load_slices(name).items():
          m.ob(f"load_{sl}_{name}", LOAD_PARAMS,
             f"return c03_load(MEMBER, MODEL, TREE, LOADERS, lambda: build_data(MEMBER, TREE, {LOAD_ARGS}))",
             pre=pre, timeout=tmo, family=fam,
             bounds="slice " + sl + " of: 3 fields: presence bits, symbolic stub codes (>=0 payload, -1/-3/-4 LoadError); unknown keys at root (plain + look-alike of a renamed field) "
                    "and in the first nested node; wrong kind of the first nested node (None/list/str) and of the root (None/other container/str/"
                    "OrderedDict|tuple); list roots: truncation 0..3 and an extra item; 6 modes")
        if MEMBERS[name]["model"] == "MK":
            mods.append(m); continue
        m.ob(f"dump_{name}", "v0: int, v1: int, v2: int, e: int",
             "return c03_dump(MEMBER, MODEL, TREE, DUMPERS, mk_obj(v0, v1, v2, e))", pre=["-1 <= e <= 1"], timeout=tmo, family=fam,
             bounds="symbolic stub payloads for the 3 fields (incl. equal to the declared default), extra mapping present/empty; 3 debug modes")
        mods.append(m)
    mx = Module("c03_extra").pre('''
import dataclasses
from typing import Any, Optional, Union
from adaptix import Retort, name_mapping, NameStyle
@dataclasses.dataclass
class MF:
    a: int
    m1: Any = dataclasses.field(default_factory=dict)
    m2: Any = 0
    xs: Any = dataclasses.field(default_factory=list)
    s: Any = dataclasses.field(default_factory=str)
    n: Any = None
VALS = (None, 0, "", [], {}, False, 5, [1], {"k": 1}, "x", ())
DEFAULTS = {"m1": {}, "m2": 0, "xs": [], "s": "", "n": None}
def eq_default(f, v):
    d = DEFAULTS[f]
    return type(v) is type(d) and v == d or (v == d and not isinstance(v, bool) and not isinstance(d, bool) and type(v) in (int, float) and type(d) in (int, float))
# two key orders inside the nested node: the factory-default field first / last
KEYS = ({"m1": "m1", "m2": "m2"}, {"m1": "q", "m2": "p"})
RF = {(ko, dt): Retort(recipe=[name_mapping(MF, map={"m1": ("meta", KEYS[ko]["m1"]), "m2": ("meta", KEYS[ko]["m2"])}, omit_default=True)], debug_trail=dt)
      for dt in DT_MODES for ko in (0, 1)}
DPF = {k: r.get_dumper(MF) for k, r in RF.items()}
LDF = {k: r.get_loader(MF) for k, r in RF.items()}
def omit_factory(a, i1, i2, i3, i4, i5):
    """omit_default removes exactly the fields whose value equals the default (also for default factories and falsy look-alikes);
    the nested node is written even when empty; load(dump(x)) == x"""
    vals = {"m1": VALS[pick(i1, 11)], "m2": VALS[pick(i2, 11)], "xs": VALS[pick(i3, 11)], "s": VALS[pick(i4, 11)], "n": VALS[pick(i5, 11)]}
    obj = MF(a, **vals)
    for ko in (0, 1):
        exp = {"a": a, "meta": {}}
        for f, v in vals.items():
            if v == DEFAULTS[f]: continue                       # `==` is the documented comparison
            if f in ("m1", "m2"): exp["meta"][KEYS[ko][f]] = v
            else: exp[f] = v
        for dt in DT_MODES:
            d = DPF[(ko, dt)](obj)
            if d != exp: return False
            back = LDF[(ko, dt)](d)
            for f, v in vals.items():
                if getattr(back, f) != v: return False
    return True

# function mappers returning paths with Ellipsis: the key AFTER trimming / name_style
@dataclasses.dataclass
class MN:
    first_name: int
    from_: int = 0
    z: int = 1
RN = {dt: Retort(recipe=[name_mapping(MN, name_style=NameStyle.CAMEL, map=[("first_name|from_", lambda shape, fld: ("g", ...))])], debug_trail=dt) for dt in DT_MODES}
RL = {dt: Retort(recipe=[name_mapping(MN, as_list=True, map=[("z", lambda shape, fld: ...)])], debug_trail=dt) for dt in DT_MODES}
DN = {dt: r.get_dumper(MN) for dt, r in RN.items()}
LN = {dt: r.get_loader(MN) for dt, r in RN.items()}
DL = {dt: r.get_dumper(MN) for dt, r in RL.items()}
def func_mapper(a, b, c):
    obj = MN(a, b, c)
    for dt in DT_MODES:
        d = DN[dt](obj)
        if type(d) is not dict or sorted(d) != ["g", "z"] or type(d["g"]) is not dict or sorted(d["g"]) != ["firstName", "from"]: return False
        if d["g"]["firstName"] is not a or d["g"]["from"] is not b or d["z"] is not c: return False
        back = LN[dt]({"g": {"firstName": a, "from": b}, "z": c})
        if back.first_name is not a or back.from_ is not b or back.z is not c: return False
        l = DL[dt](obj)
        if type(l) is not list or len(l) != 3 or l[0] is not a or l[1] is not b or l[2] is not c: return False
    return True
''')
    for sl, pre in (("nested", "i3 == 3 and i4 == 2 and i5 == 0"), ("flat", "i1 == 4 and i2 == 1 and i5 == 0"), ("none", "i1 == 4 and i3 == 3 and i4 == 2")):
        mx.ob(f"omit_factory_defaults_{sl}", "a: int, i1: int, i2: int, i3: int, i4: int, i5: int", "return omit_factory(a, i1, i2, i3, i4, i5)",
              pre=["0 <= i1 < 11 and 0 <= i2 < 11 and 0 <= i3 < 11", "0 <= i4 < 11 and 0 <= i5 < 11", pre], timeout=tmo,
              family="omit_default with default factories / falsy look-alikes, two fields flattened into one nested node",
              bounds="5 defaulted fields (dict/list/str factories, 0, None) x 11 look-alike values (None, 0, '', [], {}, False, 5, [1], {'k': 1}, 'x', ()); slice " + sl + ": two fields vary, the others at their default")
    mx.ob("func_mapper_ellipsis", "a: int, b: int, c: int", "return func_mapper(a, b, c)", timeout=tmo,
          family="function mappers returning paths with Ellipsis (after trim / name_style / as_list)", bounds="symbolic ints; loader and dumper; 3 debug modes")
    mods.append(mx)
    # optional OUTPUT fields (TypedDict NotRequired keys) are written to their path whenever they are present, whatever their value: the round-trip obligation of C01
    from props.C01 import build as build_c01
    for m01 in build_c01(tier, seed).modules:
        if m01.key == "c01_omit":
            m01.obs = [o for o in m01.obs if o.name in ("typeddict_optional_keys_rt", "first_optional_rt", "omit_default_rt_emptied")]
            mods.append(m01)
    return Plan("C03", mods, assumptions=["field loaders/dumpers are stubs honouring the loader contract (assume-guarantee)",
                                          "nested unknown keys are compared after pruning empty sub-mappings (the docs fix names, not the nesting of empties)"],
                bounds={"fields": "3", "path depth": "<=3", "extra keys": "<=3"},
                outside=["more than 3 fields", "name_style on non-snake names", "user Provider objects inside map"])
