"""C03 Generated model loaders/dumpers honour the configured outer layout exactly."""
from vf.gen import Plan
from props.fam_model import MEMBERS, member_module, LOAD_PARAMS, LOAD_ARGS, load_slices

QUICK = ["omit_stub", "plain", "rename", "nested", "camel", "skip_gt_only", "map_gt_style", "ellipsis_style", "pairs_map", "stack_override", "stack_style",
         "forbid_rename", "forbid_nested", "kwargs", "rest_field_rename", "saturator", "omit_one", "omit_nested", "as_list_forbid", "list_gaps",
         "list_in_dict", "dict_in_list", "no_trim", "map_none", "req_two_crowns", "req_three_levels"]


def build(tier, seed):
    quick = tier == "quick"
    tmo = 120 if quick else 300
    names = QUICK if quick else list(MEMBERS)
    mods = []
    for name in names:
        m = member_module("C03", name)
        fam = "generated model loader/dumper vs documented layout (stub fields)"
        m.ob(f"builds_{name}", "x: int", "return not BUILD_ERRORS", timeout=30, family=fam, bounds="6 loaders + 3 dumpers of the member")
        for sl, pre in load_slices(name).items():
          m.ob(f"load_{sl}_{name}", LOAD_PARAMS,
             f"return c03_load(MEMBER, MODEL, TREE, LOADERS, lambda: build_data(MEMBER, TREE, {LOAD_ARGS}))",
             pre=pre, timeout=tmo, family=fam,
             bounds="slice " + sl + " of: 3 fields: presence bits, symbolic stub codes (>=0 payload, -1/-3/-4 LoadError); unknown keys at root (plain + look-alike of a renamed field) "
                    "and in the first nested node; wrong kind of the first nested node (None/list/str) and of the root (None/other container/str/"
                    "OrderedDict|tuple); list roots: truncation 0..3 and an extra item; 6 modes")
        if MEMBERS[name]["model"] == "MK":
            mods.append(m); continue
        m.ob(f"dump_{name}", "v0: int, v1: int, v2: int, e: int",
             "return c03_dump(MEMBER, MODEL, TREE, DUMPERS, mk_obj(v0, v1, v2, e))", pre=["-1 <= e <= 1"], timeout=tmo, family=fam,
             bounds="symbolic stub payloads for the 3 fields (incl. equal to the declared default), extra mapping present/empty; 3 debug modes")
        mods.append(m)
    return Plan("C03", mods, assumptions=["field loaders/dumpers are stubs honouring the loader contract (assume-guarantee)",
                                          "nested unknown keys are compared after pruning empty sub-mappings (the docs fix names, not the nesting of empties)"],
                bounds={"fields": "3", "path depth": "<=3", "extra keys": "<=3"},
                outside=["more than 3 fields", "name_style on non-snake names", "user Provider objects inside map"])
