"""C09 Recipe resolution is first-match in recipe order; chaining composes exactly once."""
from vf.gen import Module, Plan

ROUTER_SETUP = '''
from adaptix._internal.retort.routers import ExactOriginCombiner, LocatedRequestRouter, create_router_for_located_request
from adaptix._internal.provider.located_request import LocatedRequestChecker
from adaptix._internal.provider.loc_stack_filtering import ExactOriginLSC, LocStack
from adaptix._internal.provider.essential import RequestChecker
from adaptix._internal.provider.location import TypeHintLoc
from adaptix._internal.morphing.request_cls import LoaderRequest

ORIGINS = (int, str, bytes)
REQS = tuple(LoaderRequest(loc_stack=LocStack(TypeHintLoc(type=t))) for t in ORIGINS)

class TruthChecker(RequestChecker):
    """a non-groupable checker with a fixed truth value"""
    def __init__(self, val): self.val = val
    def check_request(self, mediator, request, /): return self.val

def mk_item(kind, truth, hid):
    """kind 0..2: exact origin int/str/bytes ; 3: arbitrary predicate with the given truth value"""
    if kind == 0: return (LocatedRequestChecker(ExactOriginLSC(int)), hid)
    if kind == 1: return (LocatedRequestChecker(ExactOriginLSC(str)), hid)
    if kind == 2: return (LocatedRequestChecker(ExactOriginLSC(bytes)), hid)
    return (TruthChecker(truth), hid)

def item_matches(kind, truth, o):
    return truth if kind == 3 else kind == o

def consult_all(router, o):
    """handlers consulted when every handler declines: repeated route_handler from the returned offset"""
    out, off = [], 0
    for _ in range(64):
        try:
            h, off2 = router.route_handler(None, REQS[o], off)
        except StopIteration:
            return out
        if off2 <= off:
            return out + ["offset-not-increasing"]
        out.append(h)
        off = off2
    return out + ["overflow"]

def whole(kinds, truths, o):
    n = len(kinds)
    items = [mk_item(kinds[i], truths[i], i) for i in range(n)]
    router = create_router_for_located_request(items)
    got = consult_all(router, o)
    exp = [i for i in range(n) if item_matches(kinds[i], truths[i], o)]
    return got == exp

def scan(kinds, truths, o, off):
    """route_handler from an arbitrary offset returns the first matching routing item at index >= offset, and index+1"""
    n = len(kinds)
    items = [mk_item(kinds[i], truths[i], i) for i in range(n)]
    router = LocatedRequestRouter(items)      # no grouping: items are the routing items
    try:
        h, nxt = router.route_handler(None, REQS[o], off)
    except StopIteration:
        return not any(item_matches(kinds[i], truths[i], o) for i in range(off, n))
    cand = [i for i in range(off, n) if item_matches(kinds[i], truths[i], o)]
    return bool(cand) and h == cand[0] and nxt == cand[0] + 1

def step(p0, p1, p2, kind, truth, o):
    """inductive step: arbitrary pending combo (presence bit per origin; handlers 10,11,12 registered in that order),
    one arbitrary item (handler 20): emitted ++ pending must consult exactly what the linear chain pre ++ [item] consults"""
    comb = ExactOriginCombiner()
    pre = []
    for present, k in ((p0, 0), (p1, 1), (p2, 2)):
        if present:
            it = mk_item(k, False, 10 + k)
            r = comb.register_item(it)
            if r: return True          # cannot happen: distinct origins never flush
            pre.append((k, False, 10 + k))
    emitted = list(comb.register_item(mk_item(kind, truth, 20)))
    pending = list(comb.finalize())
    router = LocatedRequestRouter(emitted + pending)
    got = consult_all(router, o)
    lin = pre + [(kind, truth, 20)]
    exp = [h for (k, t, h) in lin if item_matches(k, t, o)]
    return got == exp

def finalize_twice(p0, p1, p2):
    """finalize flushes the pending combo exactly once"""
    comb = ExactOriginCombiner()
    cnt = 0
    for present, k in ((p0, 0), (p1, 1), (p2, 2)):
        if present:
            comb.register_item(mk_item(k, False, 10 + k)); cnt += 1
    first = list(comb.finalize())
    r = LocatedRequestRouter(first)
    for o in (0, 1, 2):
        if consult_all(r, o) != ([10 + o] if (p0, p1, p2)[o] else []): return False
    return True
'''

BUS_SETUP = '''
from adaptix import AdornedRetort, Retort, CannotProvide, Provider, Chain, bound, P, loader, dumper
from adaptix._internal.morphing.request_cls import LoaderRequest as _LR
from adaptix._internal.provider.essential import AggregateCannotProvide

class BehProvider(Provider):
    """handler behaviour by code: 0 provide own id; 1 decline (CannotProvide); 2 terminal CannotProvide;
    3 delegate: ("chained", id, provide_from_next())"""
    def __init__(self, hid, matches, beh, log):
        self.hid, self.matches, self.beh, self.log = hid, matches, beh, log
    def get_request_handlers(self):
        def handler(mediator, request):
            self.log.append(self.hid)
            if self.beh == 0: return ("own", self.hid)
            if self.beh == 1: raise CannotProvide("declined %d" % self.hid)
            if self.beh == 2:
                e = CannotProvide("terminal", is_terminal=True)
                e.hid = self.hid
                raise e
            return ("chained", self.hid, mediator.provide_from_next())
        return [(_LR, TruthChecker(self.matches), handler)]

def ref_bus(ms, bs, start, log):
    """documented resolution: first matching provider that does not decline; an explicit delegation continues after the
    delegating provider; a delegation that finds nothing makes the delegating provider decline (CannotProvide propagates)"""
    for i in range(start, len(ms)):
        if not ms[i]: continue
        log.append(i)
        if bs[i] == 0: return ("own", i)
        if bs[i] == 1: continue
        if bs[i] == 2: return ("terminal", i)
        r = ref_bus(ms, bs, i + 1, log)
        if r[0] == "terminal": return r
        if r[0] == "notfound": continue
        return ("chained", i, r)
    return ("notfound",)

def bus(ms, bs):
    log = []
    provs = [BehProvider(i, ms[i], bs[i], log) for i in range(len(ms))]
    r = AdornedRetort(recipe=provs)
    try:
        got = r._provide_from_recipe(REQS[0])
    except CannotProvide as e:
        got = ("terminal", e.hid) if hasattr(e, "hid") else ("notfound",)
    explog = []
    exp = ref_bus(ms, bs, 0, explog)
    return got == exp and log == explog
'''

E2E_SETUP = '''
import itertools
from adaptix import Retort, Chain, P, loader, bound, CannotProvide, Provider
from adaptix._internal.morphing.request_cls import LoaderRequest as _LR2

class Declining(Provider):
    def __init__(self, log): self.log = log
    def get_request_handlers(self):
        def handler(mediator, request):
            raise CannotProvide("declining")
        return [(_LR2, AlwaysTrue(), handler)]

from adaptix._internal.provider.request_checkers import AlwaysTrueRequestChecker as AlwaysTrue

class A: pass
REQ_TYPES = (int, A)
def mkf(i):
    m, c = ((2, 1), (3, 1), (5, 1))[i]      # pairwise non-commuting affine maps
    def f(x): return x * m + c
    return f, m, c
FS = [mkf(i) for i in range(3)]
PREDS = {"int": int, "A": A, "any": P.ANY, "notA": ~P[A], "intorA": P[int] | P[A]}
def pred_matches(p, t):
    return {"int": t is int, "A": t is A, "any": True, "notA": t is not A, "intorA": True}[p]
HANDLERS = ("plain", "first", "last", "decline")
def mk_provider(i, p, h):
    f = FS[i][0]
    if h == "plain": return loader(PREDS[p], f)
    if h == "first": return loader(PREDS[p], f, Chain.FIRST)
    if h == "last": return loader(PREDS[p], f, Chain.LAST)
    return bound(PREDS[p], Declining(None))

BASE = [loader(A, lambda x: x * 11 + 5)]        # the "builtin" tail for A; int falls to the real builtin int loader
def ref_fn(recipe, t, start=0):
    """documented resolution as a python function on ints"""
    for i in range(start, len(recipe)):
        _, p, h = recipe[i]
        if not pred_matches(p, t): continue
        m, c = FS[recipe[i][0]][1:]
        if h == "plain": return lambda x, m=m, c=c: x * m + c
        if h == "decline": continue
        nxt = ref_fn(recipe, t, i + 1)
        if h == "first": return lambda x, m=m, c=c, nxt=nxt: nxt(x * m + c)
        return lambda x, m=m, c=c, nxt=nxt: nxt(x) * m + c
    if t is A: return lambda x: x * 11 + 5
    return lambda x: x

ITEMS = [(p, h) for p in PREDS for h in HANDLERS]
def recipes(maxlen, limit3):
    out = [()]
    for n in range(1, maxlen + 1):
        for combo in itertools.product(ITEMS, repeat=n):
            out.append(tuple((i, p, h) for i, (p, h) in enumerate(combo)))
    return out
'''


def build(tier, seed):
    quick = tier == "quick"
    n = 2 if quick else 4
    tmo = 90 if quick else 1500
    m = Module("c09_router").pre(ROUTER_SETUP)
    kp = "all(0 <= k <= 3 for k in kinds)"
    sc = "n: int, k0: int, k1: int, k2: int, k3: int, t0: bool, t1: bool, t2: bool, t3: bool, o: int"
    kp = "0 <= k0 <= 3 and 0 <= k1 <= 3 and 0 <= k2 <= 3 and 0 <= k3 <= 3"
    m.ob("whole", sc, "n = pick(n, 5)\nreturn whole([k0, k1, k2, k3][:n], [t0, t1, t2, t3][:n], o)",
         pre=[f"0 <= n <= {n}", kp, "0 <= o <= 2"], timeout=tmo,
         family="router: create_router_for_located_request on a symbolic recipe",
         bounds=f"recipe length <= {n}; item = exact origin int/str/bytes or predicate with symbolic truth value; 3 request origins")
    if quick:
        m.ob("scan", sc + ", off: int", "n = pick(n, 5)\nreturn scan([k0, k1, k2, k3][:n], [t0, t1, t2, t3][:n], o, off)",
             pre=[f"0 <= n <= {n}", kp, "0 <= o <= 2", "0 <= off <= n"], timeout=tmo,
             family="router: LocatedRequestRouter.route_handler from every offset", bounds=f"items <= {n}, every offset")
    else:
        # one slice per recipe length, the longest also per request origin: every path tree is exhausted
        # (recipes of 4 items do not exhaust for `scan` even in slices of 5120 combinations - 12k paths in 33 min -: the scan obligation stops at 3 items,
        #  `whole` and the inductive `step` cover longer recipes)
        for nn in range(0, n):
            for oo in ((0, 1, 2) if nn >= n - 2 else (None,)):
                for kk in ((0, 1, 2, 3) if nn == n - 1 else (None,)):
                    opre = "0 <= o <= 2" if oo is None else f"o == {oo}"
                    kpre = [] if kk is None else [f"k0 == {kk}"]
                    m.ob(f"scan_n{nn}" + ("" if oo is None else f"_o{oo}") + ("" if kk is None else f"_k{kk}"), sc + ", off: int",
                         "n = pick(n, 5)\nreturn scan([k0, k1, k2, k3][:n], [t0, t1, t2, t3][:n], o, off)",
                         pre=[f"n == {nn}", kp, opre, "0 <= off <= n"] + kpre + [f"k{j} == 0 and not t{j}" for j in range(nn, 4)], timeout=tmo,
                         family="router: LocatedRequestRouter.route_handler from every offset",
                         bounds=f"recipes of exactly {nn} items" + ("" if oo is None else f", request origin {oo}") + ("" if kk is None else f", first item kind {kk}") + ", every offset")
    m.ob("step", "p0: bool, p1: bool, p2: bool, kind: int, truth: bool, o: int", "return step(p0, p1, p2, kind, truth, o)",
         pre=["0 <= kind <= 3", "0 <= o <= 2"], timeout=tmo,
         family="router: ExactOriginCombiner inductive step (arbitrary pending combo, one item)",
         bounds="all 8 pending-combo states x 4 item kinds x truth x 3 origins: covers recipes of any length given the invariant "
                "'pending combo = not-yet-emitted exact items with distinct origins'")
    m.ob("finalize", "p0: bool, p1: bool, p2: bool", "return finalize_twice(p0, p1, p2)", timeout=tmo,
         family="router: ExactOriginCombiner.finalize", bounds="all 8 pending-combo states")
    mb = Module("c09_bus").pre(ROUTER_SETUP).pre(BUS_SETUP)
    nb = 3 if quick else 4
    mb.ob("bus", "ms: List[bool], bs: List[int]", "return bus(ms, bs)",
          pre=[f"len(ms) <= {nb}", "len(bs) == len(ms)", "all(0 <= b <= 3 for b in bs)"], timeout=tmo * 2,
          family="request bus: real AdornedRetort with behaviour providers",
          bounds=f"recipe length <= {nb}; per provider symbolic match bit and behaviour in provide/decline/terminal/delegate-to-next")
    # ---- end-to-end chaining through the public loader(pred, f, chain): recipes enumerated natively, data symbolic
    me = Module("c09_e2e").pre(E2E_SETUP)
    maxlen = 2
    me.pre(f'''
ALL_RECIPES = recipes({maxlen}, 0)
CASES = []
BUILD_ERRORS = []
for _rc in ALL_RECIPES:
    _provs = [mk_provider(i, p, h) for (i, p, h) in _rc]
    _r = Retort(recipe=_provs + BASE)
    for _t in REQ_TYPES:
        try:
            CASES.append((_rc, _t, _r.get_loader(_t), ref_fn(_rc, _t)))
        except Exception as _e:
            BUILD_ERRORS.append((_rc, _t, repr(_e)))
NCH = 32
def e2e(chunk, i, x):
    i = pick(i, NCH)
    idx = chunk * NCH + i
    if idx >= len(CASES): return True
    rc, t, ld, ref = CASES[idx]
    return ld(x) == ref(x)
''')
    import itertools
    n_items = 5 * 4
    n_cases = (1 + n_items + n_items ** 2) * 2
    nch = (n_cases + 31) // 32
    chunks = list(range(nch))
    if quick:
        import random
        rnd = random.Random(seed)
        chunks = sorted(rnd.sample(chunks, 10))
    me.ob("e2e_builds", "x: int", "return not BUILD_ERRORS", timeout=20, family="chaining e2e",
          bounds="every recipe of the family must yield a loader for int and A (chaining providers fall through to the tail)")
    for c in chunks:
        me.ob(f"e2e_{c}", "i: int, x: int", f"return e2e({c}, i, x)", pre=["0 <= i < 32"], timeout=tmo,
              family="chaining e2e: loader(pred, f, chain) recipes vs documented resolution, datum symbolic",
              bounds=f"recipes of length <= {maxlen} over 5 predicates x plain/Chain.FIRST/Chain.LAST/declining, request types int and a class; x any int; chunk {c} of {nch}"
              + (" (quick runs a seed-chosen sample of 10 chunks)" if quick else ""))
    # ---- facade rules
    mf = Module("c09_facade").pre('''
from adaptix import Retort, Chain, P, loader, bound
ALPHA = "01-+_ a.9"
def f1(x): return x * 2 + 1                  # pairwise non-commuting affine maps
def f2(x): return x * 3 + 1
def f3(x): return x * 5 + 1
class MyRetort(Retort):
    recipe = [loader(int, f2, Chain.LAST)]
class MyRetort2(MyRetort):
    recipe = [loader(int, f3, Chain.LAST)]
R_INST = MyRetort(recipe=[loader(int, f1, Chain.LAST)])
L_INST = R_INST.get_loader(int)                       # instance, then class: f1(f2(int(x)))
R_SUB = MyRetort2(recipe=[loader(int, f1, Chain.LAST)])
L_SUB = R_SUB.get_loader(int)                         # instance, subclass recipe, base class recipe
R_EXT = R_INST.extend(recipe=[loader(int, f3, Chain.LAST)])
L_EXT = R_EXT.get_loader(int)                         # extend() prepends: f3(f1(f2(x)))
R_REP = R_INST.replace(strict_coercion=False)
L_REP = R_REP.get_loader(int)                         # replace() keeps the recipe, changes the option only
INNER = Retort(recipe=[loader(int, f1, Chain.LAST)], strict_coercion=False)
OUTER = Retort(recipe=[bound(int, INNER), loader(int, f2)], strict_coercion=True)
L_OUT_INT = OUTER.get_loader(int)                     # served by INNER with INNER's recipe and options (lax)
L_OUT_LIST = OUTER.get_loader(List[int])              # List handled by OUTER, element by INNER
# a retort that already served inside a recipe, then cloned with extend()/replace(), then placed in a recipe again
INNER0 = Retort(recipe=[loader(int, f1, Chain.LAST)])
OUT0 = Retort(recipe=[bound(int, INNER0)])
L_OUT0 = OUT0.get_loader(int)
INNER1 = INNER0.extend(recipe=[loader(int, f3, Chain.LAST)])
L_OUT1 = Retort(recipe=[bound(int, INNER1)]).get_loader(int)          # f3(f1(x)): the clone's own recipe
INNER2 = INNER0.replace(strict_coercion=False)
L_OUT2 = Retort(recipe=[bound(int, INNER2)]).get_loader(int)          # lax: the clone's own options
L_OUT0_AGAIN = Retort(recipe=[bound(int, INNER0)]).get_loader(int)    # the original is unchanged
# chained providers at the recursion point of a recursive model: composed exactly once at EVERY nesting level
import dataclasses
from adaptix import dumper, validator
@dataclasses.dataclass
class RNode:
    v: int
    children: List["RNode"] = dataclasses.field(default_factory=list)
    nxt: Optional["RNode"] = None
def rev(xs): return list(reversed(xs))
def tag_node(n): return RNode(f1(n.v), n.children, n.nxt)
def dump_tag(d): d2 = dict(d); d2["v"] = f2(d["v"]); return d2
RC_LAST = Retort(recipe=[loader(P[RNode].children, rev, Chain.LAST), loader(RNode, tag_node, Chain.LAST), dumper(RNode, dump_tag, Chain.LAST)])
RC_FIRST = Retort(recipe=[loader(P[RNode].children, rev, Chain.FIRST), loader(List[RNode], rev, Chain.FIRST)])
LD_RC_LAST, DP_RC_LAST = RC_LAST.get_loader(RNode), RC_LAST.get_dumper(RNode)
LD_RC_FIRST = RC_FIRST.get_loader(RNode)
LD_RC_LIST = RC_FIRST.get_loader(List[RNode])
def rec_chain(a, b, c, d):
    data = {"v": a, "children": [{"v": b, "children": [{"v": c}, {"v": d, "nxt": {"v": a, "children": [{"v": b}, {"v": c}]}}]}, {"v": d}]}
    def ref(dd, list_rev):
        kids = [ref(k, list_rev) for k in dd.get("children", [])]
        for _ in range(list_rev): kids = rev(kids)
        return RNode(f1(dd["v"]) if list_rev == 1 else dd["v"], kids, None if dd.get("nxt") is None else ref(dd["nxt"], list_rev))
    got = LD_RC_LAST(data)
    if got != ref(data, 1): return False                               # rev once and tag once at each of the 3 levels
    plain = ref(data, 0)
    def dref(n): return {"v": f2(n.v), "children": [dref(k) for k in n.children], "nxt": None if n.nxt is None else dref(n.nxt)}
    if DP_RC_LAST(plain) != dref(plain): return False
    got2 = LD_RC_FIRST(data)                                           # two chained providers match the field: both composed, at every level -> identity
    return got2 == ref(data, 2) and LD_RC_LIST([data, {"v": d}]) == rev([ref(data, 2), RNode(d)])
''')
    mf.ob("recursive_chain", "a: int, b: int, c: int, d: int", "return rec_chain(a, b, c, d)", timeout=60, family="facade",
          bounds="Chain.FIRST / Chain.LAST loaders and dumpers matching the recursion point (field, model type, List[model]) of a recursive model: composed exactly once at each of "
                 "4 nesting levels (through a list field and an Optional field); symbolic ints")
    mf.ob("instance_before_class", "x: int", "return L_INST(x) == f1(f2(x)) and L_SUB(x) == f1(f3(f2(x)))", timeout=30,
          family="facade", bounds="x any int")
    mf.ob("extend_prepends", "x: int", "return L_EXT(x) == f3(f1(f2(x))) and L_INST(x) == f1(f2(x))", timeout=30,
          family="facade", bounds="x any int")
    mf.ob("replace_scalar_only", "x: int, n: int, c0: int, c1: int",
          "s = sel_atom(4, n, c0, c1, 0, ALPHA)\n"
          "ok, r = run(L_REP, s)\n"
          "exp_ok, exp = run(lambda v: f1(f2(int(v))), s)\n"
          "strict_ok, _ = run(L_INST, s)\n"
          "return L_REP(x) == f1(f2(x)) and ok == exp_ok and (not ok or r == exp) and not strict_ok",
          pre=["0 <= n <= 2", "0 <= c0 < 9", "0 <= c1 < 9"], timeout=60, family="facade", bounds="x any int; s str len<=2 over '01-+_ a.9' (lax int parsing)")
    mf.ob("retort_in_recipe", "x: int, n: int, c0: int, c1: int",
          "s = sel_atom(4, n, c0, c1, 0, ALPHA)\n"
          "ok, r = run(L_OUT_INT, s)\n"
          "exp_ok, exp = run(lambda v: f1(int(v)), s)\n"
          "ok2, r2 = run(L_OUT_LIST, [x, s])\n"
          "return L_OUT_INT(x) == f1(x) and ok == exp_ok and (not ok or r == exp) and ok2 == exp_ok and (not ok2 or r2 == [f1(x), exp])",
          pre=["0 <= n <= 2", "0 <= c0 < 9", "0 <= c1 < 9"], timeout=60, family="facade",
          bounds="x any int; s str len<=2 over '01-+_ a.9': the inner retort's lax option decides, not the outer strict one")
    mf.ob("clone_in_recipe", "x: int, n: int, c0: int, c1: int",
          "s = sel_atom(4, n, c0, c1, 0, ALPHA)\n"
          "ok, r = run(L_OUT2, s)\n"
          "exp_ok, exp = run(lambda v: f1(int(v)), s)\n"
          "strict_ok, _ = run(L_OUT0_AGAIN, s)\n"
          "return (L_OUT0(x) == f1(x) and L_OUT1(x) == f3(f1(x)) and L_OUT0_AGAIN(x) == f1(x) and L_OUT2(x) == f1(x)\n"
          "        and ok == exp_ok and (not ok or r == exp) and not strict_ok)",
          pre=["0 <= n <= 2", "0 <= c0 < 9", "0 <= c1 < 9"], timeout=60, family="facade",
          bounds="retort used in a recipe, then extend()/replace() clones used in recipes: each serves from its OWN recipe and options; x any int, s str len<=2")
    from props.C13 import build as build_c13
    hist = []
    for m13 in build_c13(tier, seed).modules:
        m13.obs = [o for o in m13.obs if o.name == "history"]          # the per-call recipe of the conversion facade is prepended, whatever was cached
        hist.append(m13)
    return Plan("C09", [m, mb, me, mf] + hist,
                assumptions=["handlers/checkers are stubs with symbolic truth values and behaviours (documented contract: provide, decline with CannotProvide, terminal CannotProvide, provide_from_next)",
                             "step obligation relies on the invariant that the pending combo holds the not-yet-emitted exact-origin items with distinct origins"],
                bounds={"router recipe length": str(n), "bus recipe length": str(nb), "e2e recipe length": "2"},
                outside=["recipes longer than the bounds (except through the inductive step)", "field-name predicates in routing (covered by C10 end-to-end)"])
