from vf.gen import Plan, Module
from props.fam_model import MEMBERS, member_module, LOAD_PARAMS, LOAD_ARGS, load_slices
from props.fam_l2 import l2_module


def build(tier, seed):
    mods = [l2_module("C20", tier)]

    model_names = ['plain', 'rename', 'nested', 'nested2', 'forbid_nested', 'kwargs', 'rest_field_rename', 'saturator', 'as_list_forbid', 'list_gaps', 'list_in_dict', 'dict_in_list', 'pairs_map', 'req_two_crowns', 'req_three_levels'] if tier == "quick" else list(MEMBERS)
    for name in model_names:
        mm = member_module("C20", name)
        for sl, pre in load_slices(name, allow_bug=False).items():
            mm.ob(f"model_{sl}_{name}", LOAD_PARAMS, f"return c20_model(MEMBER, MODEL, TREE, LOADERS, lambda: build_data(MEMBER, TREE, {LOAD_ARGS}))",
                  pre=pre, timeout=120 if tier == "quick" else 300, family="generated model loaders (stub fields) x name_mapping recipes",
                  bounds="slice " + sl + ": presence bits, symbolic stub codes, unknown keys, wrong node/root kinds, list truncation; 6 modes")
        if MEMBERS[name]["model"] != "MK":
            mm.ob(f"model_dump_{name}", "v0: int, v1: int, v2: int, e: int", "return c20_dump(MEMBER, MODEL, TREE, DUMPERS, lambda: mk_obj(v0, v1, v2, e))",
                  pre=["-1 <= e <= 1"], timeout=120 if tier == "quick" else 300, family="generated model dumpers: purity and freshness", bounds="symbolic payloads; two calls; 3 debug modes")
        mods.append(mm)
    mf = Module("c20_flag_enum").pre('''
from enum import Flag, Enum
from adaptix import Retort, flag_by_member_names, enum_by_name
class F3c(Flag):
    A = 1
    B = 2
    C = 4
    AB = 3
for _v in range(8): F3c(_v)
DPS = {(o, dt): Retort(recipe=[flag_by_member_names(F3c, allow_compound=o)], debug_trail=dt).get_dumper(F3c) for o in (True, False) for dt in DT_MODES}
LDS = {(o, dt): Retort(recipe=[flag_by_member_names(F3c, allow_compound=o)], debug_trail=dt).get_loader(F3c) for o in (True, False) for dt in DT_MODES}
def flag_fresh(v, o):
    v = pick(v, 8)
    for dt in DT_MODES:
        dp, ld = DPS[(o, dt)], LDS[(o, dt)]
        r1 = dp(F3c(v)); r2 = dp(F3c(v))
        if r1 != r2 or r1 is r2: return False
        keep = list(r2)
        r1.append("ZZ")                      # editing an earlier result must not leak into later ones
        if dp(F3c(v)) != keep: return False
        data = list(keep); snap = list(keep)
        if ld(data) != F3c(v) or data != snap: return False
    return True
''')
    mf.ob("flag_dump_fresh", "v: int, o: bool", "return flag_fresh(v, o)", pre=["0 <= v < 8"], timeout=120, family="flag by member names: dumped lists are fresh",
          bounds="all 8 flag values, allow_compound both ways, 3 debug modes")
    mods.append(mf)
    md = Module("c20_defaults").pre('''
import dataclasses, attr
from typing import NamedTuple, Any, List, Dict
from adaptix import Retort, name_mapping
D_XS, D_YS, D_ZS, D_WS = [], {"k": [1]}, set(), [[0]]
class DNt(NamedTuple):
    a: int
    xs: list = D_XS
    ys: dict = D_YS
    zs: set = D_ZS
    ws: list = D_WS
@attr.s(auto_attribs=True)
class DAt:
    a: int
    xs: list = attr.ib(default=D_XS)
    ys: dict = attr.ib(default=D_YS)
    zs: set = attr.ib(default=D_ZS)
    ws: list = attr.ib(default=D_WS)
class DPl:
    def __init__(self, a: int, xs: list = D_XS, ys: dict = D_YS, zs: set = D_ZS, ws: list = D_WS):
        self.a, self.xs, self.ys, self.zs, self.ws = a, xs, ys, zs, ws
@dataclasses.dataclass
class DFa:
    a: int
    xs: list = dataclasses.field(default_factory=list)
    ys: dict = dataclasses.field(default_factory=lambda: {"k": [1]})
    zs: set = dataclasses.field(default_factory=set)
    ws: list = dataclasses.field(default_factory=lambda: [[0]])
DKINDS = (DNt, DAt, DPl, DFa)
OWN = {"xs": D_XS, "ys": D_YS, "zs": D_ZS, "ws": D_WS}
DLD = {(k, dt): Retort(debug_trail=dt).get_loader(K) for k, K in enumerate(DKINDS) for dt in DT_MODES}
def inner_ids(v):
    return {id(x) for x in (v.values() if isinstance(v, dict) else v) if isinstance(x, (list, dict, set))}
def default_sharing(k, a, b, pxs, n):
    """two loads that omit a field with a mutable default: each result holds a container equal to the default that is either the model's own default object
    (what the constructor itself would use) or a new one -- never a third object shared between results / kept by the retort.  Factory defaults are always new."""
    k = pick(k, len(DKINDS))
    for dt in DT_MODES:
        ld = DLD[(k, dt)]
        d1, d2 = {"a": a}, {"a": b}
        if pxs: d1["xs"] = [n]
        o1, o2 = ld(d1), ld(d2)
        for f, own in OWN.items():
            v1, v2 = getattr(o1, f), getattr(o2, f)
            if f == "xs" and pxs:
                if v1 != [n] or v2 != []: return False
                continue
            if v1 != own or v2 != own or type(v1) is not type(own): return False
            if k == 3:
                if v1 is v2 or v1 is own or (inner_ids(v1) & inner_ids(v2)): return False
            elif v1 is v2 and v1 is not own: return False
            elif v1 is not own and (inner_ids(v1) & (inner_ids(v2) | inner_ids(own))) and v1 is not v2: return False
        # editing one result does not change what the next load returns
        if k == 3 or o1.ys is not D_YS:
            o1.ys["new"] = 1; o1.ws.append(2)
            o3 = ld({"a": a})
            if o3.ys != {"k": [1]} or o3.ws != [[0]]: return False
            o1.ys.pop("new"); o1.ws.pop()
    return OWN == {"xs": [], "ys": {"k": [1]}, "zs": set(), "ws": [[0]]}
''')
    md.ob("mutable_defaults_sharing", "k: int, a: int, b: int, pxs: bool, n: int", "return default_sharing(k, a, b, pxs, n)", pre=["0 <= k < 4"], timeout=120,
          family="omitted fields with mutable default values / factories: no container shared between results except the model's own default object",
          bounds="NamedTuple / attrs / plain __init__ with list, dict, set and nested-list default VALUES, dataclass with the same default FACTORIES; two loads + a third after "
                 "editing the first result; symbolic ints; 3 debug modes")
    mods.append(md)
    from props.C13 import build as build_c13
    for m13 in build_c13(tier, seed).modules:
        m13.obs = [o for o in m13.obs if o.name in ("containers_fresh", "nested", "simple")]
        mods.append(m13)
    return Plan("C20", mods, assumptions=["CrossHair models of builtins"], bounds={}, outside=[])
