from vf.gen import Plan
from props.fam_l2 import l2_module


def build(tier, seed):
    mods = [l2_module("C20", tier)]
    return Plan("C20", mods, assumptions=["CrossHair models of builtins"], bounds={}, outside=[])
