from vf.gen import Plan
from props.fam_model import MEMBERS, member_module, LOAD_PARAMS, LOAD_ARGS, load_slices
from props.fam_l2 import l2_module


def build(tier, seed):
    mods = [l2_module("C20", tier)]

    model_names = ['plain', 'rename', 'nested', 'nested2', 'forbid_nested', 'kwargs', 'rest_field_rename', 'saturator', 'as_list_forbid', 'list_gaps', 'list_in_dict', 'dict_in_list', 'pairs_map', 'req_two_crowns', 'req_three_levels'] if tier == "quick" else list(MEMBERS)
    for name in model_names:
        mm = member_module("C20", name)
        for sl, pre in load_slices(name, allow_bug=False).items():
            mm.ob(f"model_{sl}_{name}", LOAD_PARAMS, f"return c20_model(MEMBER, MODEL, TREE, LOADERS, lambda: build_data(MEMBER, TREE, {LOAD_ARGS}))",
                  pre=pre, timeout=120 if tier == "quick" else 300, family="generated model loaders (stub fields) x name_mapping recipes",
                  bounds="slice " + sl + ": presence bits, symbolic stub codes, unknown keys, wrong node/root kinds, list truncation; 6 modes")
        if MEMBERS[name]["model"] != "MK":
            mm.ob(f"model_dump_{name}", "v0: int, v1: int, v2: int, e: int", "return c20_dump(MEMBER, MODEL, TREE, DUMPERS, lambda: mk_obj(v0, v1, v2, e))",
                  pre=["-1 <= e <= 1"], timeout=120 if tier == "quick" else 300, family="generated model dumpers: purity and freshness", bounds="symbolic payloads; two calls; 3 debug modes")
        mods.append(mm)
    return Plan("C20", mods, assumptions=["CrossHair models of builtins"], bounds={}, outside=[])
