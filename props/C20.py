from vf.gen import Plan, Module
from props.fam_model import MEMBERS, member_module, LOAD_PARAMS, LOAD_ARGS, load_slices
from props.fam_l2 import l2_module


def build(tier, seed):
    mods = [l2_module("C20", tier)]

    model_names = ['plain', 'rename', 'nested', 'nested2', 'forbid_nested', 'kwargs', 'rest_field_rename', 'saturator', 'as_list_forbid', 'list_gaps', 'list_in_dict', 'dict_in_list', 'pairs_map', 'req_two_crowns', 'req_three_levels'] if tier == "quick" else list(MEMBERS)
    for name in model_names:
        mm = member_module("C20", name)
        for sl, pre in load_slices(name, allow_bug=False).items():
            mm.ob(f"model_{sl}_{name}", LOAD_PARAMS, f"return c20_model(MEMBER, MODEL, TREE, LOADERS, lambda: build_data(MEMBER, TREE, {LOAD_ARGS}))",
                  pre=pre, timeout=120 if tier == "quick" else 300, family="generated model loaders (stub fields) x name_mapping recipes",
                  bounds="slice " + sl + ": presence bits, symbolic stub codes, unknown keys, wrong node/root kinds, list truncation; 6 modes")
        if MEMBERS[name]["model"] != "MK":
            mm.ob(f"model_dump_{name}", "v0: int, v1: int, v2: int, e: int", "return c20_dump(MEMBER, MODEL, TREE, DUMPERS, lambda: mk_obj(v0, v1, v2, e))",
                  pre=["-1 <= e <= 1"], timeout=120 if tier == "quick" else 300, family="generated model dumpers: purity and freshness", bounds="symbolic payloads; two calls; 3 debug modes")
        mods.append(mm)
    mf = Module("c20_flag_enum").pre('''
from enum import Flag, Enum
from adaptix import Retort, flag_by_member_names, enum_by_name
class F3c(Flag):
    A = 1
    B = 2
    C = 4
    AB = 3
for _v in range(8): F3c(_v)
DPS = {(o, dt): Retort(recipe=[flag_by_member_names(F3c, allow_compound=o)], debug_trail=dt).get_dumper(F3c) for o in (True, False) for dt in DT_MODES}
LDS = {(o, dt): Retort(recipe=[flag_by_member_names(F3c, allow_compound=o)], debug_trail=dt).get_loader(F3c) for o in (True, False) for dt in DT_MODES}
def flag_fresh(v, o):
    v = pick(v, 8)
    for dt in DT_MODES:
        dp, ld = DPS[(o, dt)], LDS[(o, dt)]
        r1 = dp(F3c(v)); r2 = dp(F3c(v))
        if r1 != r2 or r1 is r2: return False
        keep = list(r2)
        r1.append("ZZ")                      # editing an earlier result must not leak into later ones
        if dp(F3c(v)) != keep: return False
        data = list(keep); snap = list(keep)
        if ld(data) != F3c(v) or data != snap: return False
    return True
''')
    mf.ob("flag_dump_fresh", "v: int, o: bool", "return flag_fresh(v, o)", pre=["0 <= v < 8"], timeout=120, family="flag by member names: dumped lists are fresh",
          bounds="all 8 flag values, allow_compound both ways, 3 debug modes")
    mods.append(mf)
    from props.C13 import build as build_c13
    for m13 in build_c13(tier, seed).modules:
        m13.obs = [o for o in m13.obs if o.name in ("containers_fresh", "nested", "simple")]
        mods.append(m13)
    return Plan("C20", mods, assumptions=["CrossHair models of builtins"], bounds={}, outside=[])
