"""C16 Generic models: type arguments are substituted through the class hierarchy."""
from vf.gen import Module, Plan

SETUP = '''
import dataclasses, typing, attr
from typing import Generic, TypeVar, List, Optional, NamedTuple, TypedDict, Any, Union
from adaptix import Retort
T = TypeVar("T"); U = TypeVar("U"); V = TypeVar("V")
B = TypeVar("B", bound=int)
C = TypeVar("C", int, str)

@dataclasses.dataclass
class Base(Generic[T]):
    x: T
@dataclasses.dataclass
class Child(Base[int]):
    y: str
@dataclasses.dataclass
class Child2(Base[T], Generic[T]):
    y: T
@dataclasses.dataclass
class Base2(Generic[T, U]):
    a: T
    b: U
@dataclasses.dataclass
class Mid(Base2[int, U], Generic[U]):
    c: U
@dataclasses.dataclass
class Leaf(Mid[str]):
    d: int
@dataclasses.dataclass
class Swap(Base2[U, T], Generic[T, U]):
    e: T
@dataclasses.dataclass
class Shadow(Base[T], Generic[T]):
    x: List[T]
@dataclasses.dataclass
class Deep(Child2[List[T]], Generic[T]):
    z: T
@dataclasses.dataclass
class BoundG(Generic[B]):
    v: B
@dataclasses.dataclass
class ConstrG(Generic[C]):
    v: C
@dataclasses.dataclass
class Lf(Base[T], Generic[T]):
    l: T
@dataclasses.dataclass
class Rg(Generic[T]):
    r: T
@dataclasses.dataclass
class Diamond(Lf[int], Rg[str]):
    w: int
@dataclasses.dataclass
class Rename(Base2[V, T], Generic[T, V]):      # different variable names than the base
    f: V
@dataclasses.dataclass
class PlainOverChild(Child):                 # a plain (non-subscripted) level below the level that binds the variable
    p: int = 0
@dataclasses.dataclass
class PlainOverMid(Mid[str]):
    pass
@dataclasses.dataclass
class PlainOverPlain(PlainOverMid):
    q: int = 0
@dataclasses.dataclass
class GenericOverPlain(PlainOverChild, Rg[U], Generic[U]):
    pass
@attr.s(auto_attribs=True)
class ABase(Generic[T]):
    x: T
@attr.s(auto_attribs=True)
class AChild(ABase[T], Generic[T, U]):
    y: U
class NT(NamedTuple, Generic[T]):
    x: T
    y: List[T]
class TD(TypedDict, Generic[T]):
    x: T
    y: Optional[T]
class TDChild(TD[T], Generic[T, U]):
    z: U

# attrs models whose generic parent has a hand-written __init__ (attrs then generates __attrs_init__)
import attrs as _attrs
@_attrs.define
class AInitParent(Generic[T]):
    x: T
    y: List[T]
    def __init__(self, x: T, y: List[T] = ()):
        self.__attrs_init__(x, list(y))
@_attrs.define
class AInitChild(AInitParent[int]):
    z: str = "d"
@_attrs.define
class AInitGen(AInitParent[U], Generic[U]):
    z: str = "d"
@_attrs.define
class AInitOwn(AInitParent[str]):
    z: int = 0
    def __init__(self, x: str, y: List[str] = (), z: int = 0):
        self.__attrs_init__(x, list(y), z)
# a generic parent left BARE in the list of bases, next to a subscripted base / Generic[...]: its fields get the implicit parameters
@dataclasses.dataclass
class BareMixin(Generic[T]):
    m: T
@dataclasses.dataclass
class BareParentBC(Generic[B, C]):
    a: B
    b: C
@dataclasses.dataclass
class BareBaseChild(BareParentBC, BareMixin[str]):
    pass
@dataclasses.dataclass
class BareBaseGen(BareParentBC, Generic[T]):
    c: T
@dataclasses.dataclass
class BareBaseGen2(BareMixin, Generic[U]):
    c: U
# plain subclasses: `__orig_bases__` is inherited as an attribute, the class itself uses its generic parent BARE
@dataclasses.dataclass
class OBRoot(Generic[T]):
    x: T
@dataclasses.dataclass
class OBMid(OBRoot[int], Generic[T]):
    x: List[T]                                    # overrides the field of the subscripted grandparent
    k: T = None
@dataclasses.dataclass
class OBPlainChild(OBMid):                     # OBMid bare: x: List[Any], k: Any (not the grandparent's int)
    pass
@dataclasses.dataclass
class OBBareChild(OBRoot):                      # OBRoot bare: x: Any
    n: int = 0
@dataclasses.dataclass
class OBPlainGrandChild(OBPlainChild):
    pass
@dataclasses.dataclass
class OBBoundRoot(Generic[B]):
    v: B
@dataclasses.dataclass
class OBBoundChild(OBBoundRoot):                # bare with a bound: v: int
    pass
# type variables inside PEP 604 unions next to builtin generics (types.UnionType annotations)
@dataclasses.dataclass
class PipeU(Generic[T]):
    x: T
    y: list[T] | None
    z: list[T] | str
    w: None | T = None
@dataclasses.dataclass
class PipeChild(PipeU[int]):
    pass
@dataclasses.dataclass
class PipeGen(PipeU[U], Generic[T, U]):
    pass
import pydantic
class PM(pydantic.BaseModel, Generic[T]):
    x: T
    y: List[T]
class PM2(pydantic.BaseModel, Generic[T, U]):
    x: U
    y: T
class PMChild(PM[str]):
    z: int
class PMGen(PM[U], Generic[T, U]):        # (re-using the parent's own variable, PM[T], is the documented pydantic limitation: pydantic records the
    z: T                                  #  base as the bare PM in __orig_bases__ -- docs/reference/integrations.rst, "tricky cases")
class PMOpt(pydantic.BaseModel, Generic[T]):
    x: Optional[T] = None
    y: int = 0
PYD = ("PM_int", "PM_str", "PM2_int_str", "PMChild", "PMGen_str_int", "PMGen_int_str", "PMOpt_int", "PM_bare")

# (type, {field: expected type tag}) -- the expected tags are known by construction
CASES = {
    "Child": (Child, {"x": "int", "y": "str"}),
    "Child2_int": (Child2[int], {"x": "int", "y": "int"}),
    "Child2_str": (Child2[str], {"x": "str", "y": "str"}),
    "Child2_list": (Child2[List[int]], {"x": "list_int", "y": "list_int"}),
    "Child2_bare": (Child2, {"x": "any", "y": "any"}),
    "Mid_str": (Mid[str], {"a": "int", "b": "str", "c": "str"}),
    "Mid_int": (Mid[int], {"a": "int", "b": "int", "c": "int"}),
    "Leaf": (Leaf, {"a": "int", "b": "str", "c": "str", "d": "int"}),
    "Swap_int_str": (Swap[int, str], {"a": "str", "b": "int", "e": "int"}),
    "Swap_str_int": (Swap[str, int], {"a": "int", "b": "str", "e": "str"}),
    "Shadow_int": (Shadow[int], {"x": "list_int"}),
    "Shadow_str": (Shadow[str], {"x": "list_str"}),
    "Deep_int": (Deep[int], {"x": "list_list_int", "y": "list_list_int", "z": "int"}) if False else (Deep[int], {"x": "list_int", "y": "list_int", "z": "int"}),
    "BoundG_bare": (BoundG, {"v": "int"}),
    "BoundG_bool": (BoundG[bool], {"v": "bool"}),
    "ConstrG_bare": (ConstrG, {"v": "int_or_str"}),
    "ConstrG_str": (ConstrG[str], {"v": "str"}),
    "Diamond": (Diamond, {"x": "int", "l": "int", "r": "str", "w": "int"}),
    "Rename_int_str": (Rename[int, str], {"a": "str", "b": "int", "f": "str"}),
    "PlainOverChild": (PlainOverChild, {"x": "int", "y": "str", "p": "int"}),
    "PlainOverPlain": (PlainOverPlain, {"a": "int", "b": "str", "c": "str", "q": "int"}),
    "GenericOverPlain_str": (GenericOverPlain[str], {"x": "int", "y": "str", "p": "int", "r": "str"}),
    "AChild_int_str": (AChild[int, str], {"x": "int", "y": "str"}),
    "AChild_bare": (AChild, {"x": "any", "y": "any"}),
    "NT_int": (NT[int], {"x": "int", "y": "list_int"}),
    "NT_str": (NT[str], {"x": "str", "y": "list_str"}),
    "TD_int": (TD[int], {"x": "int", "y": "opt_int"}),
    "TDChild_str_int": (TDChild[str, int], {"x": "str", "y": "opt_str", "z": "int"}),
}
CASES.update({
    "PM_int": (PM[int], {"x": "int", "y": "list_int"}), "PM_str": (PM[str], {"x": "str", "y": "list_str"}),
    "PM2_int_str": (PM2[int, str], {"x": "str", "y": "int"}), "PMChild": (PMChild, {"x": "str", "y": "list_str", "z": "int"}),
    "PMGen_str_int": (PMGen[str, int], {"x": "int", "y": "list_int", "z": "str"}), "PMGen_int_str": (PMGen[int, str], {"x": "str", "y": "list_str", "z": "int"}),
    "PMOpt_int": (PMOpt[int], {"x": "opt_int", "y": "int"}), "PM_bare": (PM, {"x": "any", "y": "list_any"}),
})
CASES.update({
    "PipeU_int": (PipeU[int], {"x": "int", "y": "opt_list_int", "z": "list_int_or_str", "w": "opt_int"}),
    "PipeU_str": (PipeU[str], {"x": "str", "y": "opt_list_str", "z": "list_str_or_str", "w": "opt_str"}),
    "PipeChild": (PipeChild, {"x": "int", "y": "opt_list_int", "z": "list_int_or_str", "w": "opt_int"}),
    "PipeGen_str_int": (PipeGen[str, int], {"x": "int", "y": "opt_list_int", "z": "list_int_or_str", "w": "opt_int"}),
})
CASES.update({
    "OBPlainChild": (OBPlainChild, {"x": "list_any", "k": "any"}),
    "OBBareChild": (OBBareChild, {"x": "any", "n": "int"}),
    "OBPlainGrandChild": (OBPlainGrandChild, {"x": "list_any", "k": "any"}),
    "OBMid_str": (OBMid[str], {"x": "list_str", "k": "str"}),
    "OBBoundChild": (OBBoundChild, {"v": "int"}),
    "BareBaseChild": (BareBaseChild, {"a": "int", "b": "int_or_str", "m": "str"}),
    "BareBaseGen_str": (BareBaseGen[str], {"a": "int", "b": "int_or_str", "c": "str"}),
    "BareBaseGen_bare": (BareBaseGen, {"a": "int", "b": "int_or_str", "c": "any"}),
    "BareBaseGen2_int": (BareBaseGen2[int], {"m": "any", "c": "int"}),
})
CASES.update({
    "AInitParent_int": (AInitParent[int], {"x": "int", "y": "list_int"}),
    "AInitChild": (AInitChild, {"x": "int", "y": "list_int", "z": "str"}),
    "AInitGen_str": (AInitGen[str], {"x": "str", "y": "list_str", "z": "str"}),
    "AInitOwn": (AInitOwn, {"x": "str", "y": "list_str", "z": "int"}),
})
CASES["Deep_int"] = (Deep[int], {"x": "list_int", "y": "list_int", "z": "int"})      # Child2[List[T]] with T=int

# generic type aliases (PEP 695) whose value uses the parameters in another order than the alias declares them
type RevMap[K, V] = dict[V, K]
type SwapT[A, Bb] = tuple[Bb, A]
type Nest[T1, U1] = dict[U1, list[T1]]
type SameOrder[K, V] = dict[K, V]
@dataclasses.dataclass
class WithAlias(Generic[T]):
    m: RevMap[int, T]
ALIASES = {
    "RevMap_int_str": (RevMap[int, str], ("dict", "str", "int")),
    "RevMap_str_int": (RevMap[str, int], ("dict", "int", "str")),
    "SwapT_int_str": (SwapT[int, str], ("tuple2", "str", "int")),
    "Nest_int_str": (Nest[int, str], ("dict", "str", "list_int")),
    "SameOrder_str_int": (SameOrder[str, int], ("dict", "str", "int")),
}
ALD, AERR = {}, []
for _n, (_t, _e) in ALIASES.items():
    try: ALD[_n] = RET.get_loader(_t) if "RET" in globals() else None
    except Exception as _e2: AERR.append((_n, repr(_e2)[:200]))

def val(sel, i, s):
    if sel == 0: return i
    if sel == 1: return s
    if sel == 2: return [i]
    if sel == 3: return None
    if sel == 4: return [s]
    return i > 0
def conf(tag, v):
    if tag == "any": return True
    if tag == "list_any": return type(v) is list
    if tag == "int": return type(v) is int
    if tag == "bool": return type(v) is bool
    if tag == "str": return type(v) is str
    if tag == "list_int": return type(v) is list and all(type(e) is int for e in v)
    if tag == "list_str": return type(v) is list and all(type(e) is str for e in v)
    if tag == "opt_int": return v is None or type(v) is int
    if tag == "opt_str": return v is None or type(v) is str
    if tag == "int_or_str": return type(v) in (int, str)
    if tag == "opt_list_int": return v is None or conf("list_int", v)
    if tag == "opt_list_str": return v is None or conf("list_str", v)
    if tag == "list_int_or_str": return type(v) is str or conf("list_int", v)
    if tag == "list_str_or_str": return type(v) is str or conf("list_str", v)
    raise KeyError(tag)

RET = Retort(strict_coercion=True)
LD, DP, ERR = {}, {}, []
for _n, (_t, _f) in CASES.items():
    try:
        LD[_n] = RET.get_loader(_t); DP[_n] = RET.get_dumper(_t)
    except Exception as _e:
        ERR.append((_n, repr(_e)[:200]))

for _n, (_t, _e) in ALIASES.items():
    try: ALD[_n] = RET.get_loader(_t)
    except Exception as _e2: AERR.append((_n, repr(_e2)[:200]))
try:
    ALD["WithAlias_str"] = RET.get_loader(WithAlias[str])
except Exception as _e2: AERR.append(("WithAlias_str", repr(_e2)[:200]))

def alias_case(name, s0, s1, i, s):
    """a parametrised generic alias is loaded as its value with every parameter replaced by the argument bound to THAT parameter"""
    a, b = val(s0, i, s), val(s1, i, s)
    if name == "WithAlias_str":
        if type(a) not in (int, str): return True
        o = outcome(ALD[name], {"m": {a: b}})
        return (o[0] == "ok") == (conf("str", a) and conf("int", b)) and o[0] != "other_exc"
    tp, (shape, t0, t1) = ALIASES[name]
    if shape == "dict":
        if type(a) not in (int, str): return True           # keys must be hashable atoms
        data = {a: b}
        exp_ok = conf(t0, a) and conf(t1, b)
    else:
        data = [a, b]
        exp_ok = conf(t0, a) and conf(t1, b)
    o = outcome(ALD[name], data)
    return o[0] != "other_exc" and exp_ok == (o[0] == "ok")

def generic_case(name, sels, i, s):
    """loading succeeds iff every field datum conforms to the SUBSTITUTED type of that field; the dump of the loaded object
    gives the data back"""
    tp, fields = CASES[name]
    names = list(fields)
    if name in PYD:                               # the pydantic constructor validates in compiled code: concrete payloads by selector
        i = pick(i + 1, 3) - 1
        s = "a" if s == "a" else ""
    data = {f: val(sels[k], i, s) for k, f in enumerate(names)}
    is_nt = name.startswith("NT_")
    o = outcome(LD[name], data)
    exp_ok = all(conf(fields[f], data[f]) for f in names)
    if o[0] == "other_exc": return False
    if exp_ok != (o[0] == "ok"): return False
    if o[0] == "ok":
        back = DP[name](o[2])
        if back != data: return False
    return True
'''


CASE_FIELDS = {"PM_int": 2, "PM_str": 2, "PM2_int_str": 2, "PMChild": 3, "PMGen_str_int": 3, "PMGen_int_str": 3, "PMOpt_int": 2, "PM_bare": 2}
CASE_FIELDS = {k: range(v) for k, v in CASE_FIELDS.items()}


def build(tier, seed):
    quick = tier == "quick"
    tmo = 90 if quick else 600
    m = Module("c16_generic").pre(SETUP)
    m.ob("creation", "x: int", "return not ERR", timeout=30, family="generic hierarchies", bounds="loader and dumper creation for 25 parametrisations")
    cases = ["Child", "Child2_int", "Child2_str", "Child2_list", "Child2_bare", "Mid_str", "Mid_int", "Leaf", "Swap_int_str", "Swap_str_int", "Shadow_int",
             "Shadow_str", "Deep_int", "BoundG_bare", "BoundG_bool", "ConstrG_bare", "ConstrG_str", "Diamond", "Rename_int_str", "PlainOverChild", "PlainOverPlain", "GenericOverPlain_str", "AChild_int_str", "AChild_bare",
             "NT_int", "NT_str", "TD_int", "TDChild_str_int", "PM_int", "PM_str", "PM2_int_str", "PMChild", "PMGen_str_int", "PMGen_int_str", "PMOpt_int", "PM_bare", "PipeU_int", "PipeU_str", "PipeChild", "PipeGen_str_int", "OBPlainChild", "OBBareChild", "OBPlainGrandChild", "OBMid_str", "OBBoundChild", "BareBaseChild", "BareBaseGen_str", "BareBaseGen_bare", "BareBaseGen2_int", "AInitParent_int", "AInitChild", "AInitGen_str", "AInitOwn"]
    for c in cases:
        pyd = c.startswith("PM")
        nf = len(CASE_FIELDS.get(c, range(4)))
        m.ob(f"case_{c}", "s0: int, s1: int, s2: int, s3: int, i: int, s: str", f"return generic_case({c!r}, [s0, s1, s2, s3], i, s)",
             pre=["0 <= s0 <= 5 and 0 <= s1 <= 5 and 0 <= s2 <= 5 and 0 <= s3 <= 5", "len(s) <= 1"] + (["-1 <= i <= 1", "s in ('', 'a')"] if pyd else [])
                 + ([f"s{k} == 0" for k in range(nf, 4)] if pyd else []), timeout=tmo,
             family="generic hierarchies: substituted field types decide acceptance (strict mode), data symbolic",
             bounds="per field a datum from {int, str, [int], None, [str], bool} by selector with symbolic int / str (len<=1) payloads; every combination")
    m.ob("alias_creation", "x: int", "return not AERR", timeout=30, family="generic type aliases", bounds="loader creation")
    for an in ["RevMap_int_str", "RevMap_str_int", "SwapT_int_str", "Nest_int_str", "SameOrder_str_int", "WithAlias_str"]:
        m.ob(f"alias_{an}", "s0: int, s1: int, i: int, s: str", f"return alias_case({an!r}, s0, s1, i, s)",
             pre=["0 <= s0 <= 5 and 0 <= s1 <= 5", "s in ('', 'a')", "-1 <= i <= 1"], timeout=tmo,
             family="generic type aliases (PEP 695): parameters substituted by name, not by position in the value",
             bounds="key/first and value/second datum from {int, str, [int], None, [str], bool} with symbolic payloads")
    return Plan("C16", [m], assumptions=["expected field types are known by construction of the hierarchy"],
                bounds={"hierarchy depth": "<=3", "type variables": "<=2"}, outside=["TypeVarTuple", "ParamSpec"])
