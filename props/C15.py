"""C15 Type normalisation is a canonical form."""
from vf.gen import Module, Plan

SETUP = '''
import typing, collections.abc
from typing import Literal, Union, Optional, List, Dict, Tuple, Any, Sequence, Generic, TypeVar
from adaptix import Retort
from adaptix._internal.type_tools import normalize_type
from adaptix._internal.type_tools.normalize_type import _create_norm_literal, _LiteralNormType

POOL = (0, False, 1, "a", True, 2, "0", b"a")
def pv(s):
    """pool value by selector (if-chain, so the value is concrete)"""
    return POOL[pick(s, len(POOL))]

def typed_set(vals):
    return {(type(v), v) for v in vals}

def lit(*vals):
    return Literal[tuple(vals)]

def norm_args_typed(n):
    return {(type(v), v) for v in n.args}

def lit_pairs(sa, sb, sc, sd):
    """different typed member sets never collapse; equal typed sets are equal and hash-equal"""
    a, b, c, d = pv(sa), pv(sb), pv(sc), pv(sd)
    n1, n2 = normalize_type(lit(a, b)), normalize_type(Union[lit(c), lit(d)])
    if (typed_set((c, d)) == typed_set((a, b))) != (n1 == n2): return False
    return n1 != n2 or hash(n1) == hash(n2)

def lit_kernel(sa, sb, sc):
    a, b, c = pv(sa), pv(sb), pv(sc)
    d = a
    # (1) merged / split / duplicated / reordered literal unions denote the same type
    forms = [lit(a, b), lit(b, a), Union[lit(a), lit(b)], Union[lit(b), lit(a)], Union[lit(a, b), lit(a)], lit(a, b, a)]
    norms = [normalize_type(f) for f in forms]
    want = typed_set((a, b))
    for n in norms:
        if n.origin is not Literal: return False
        if norm_args_typed(n) != want or len(n.args) != len(want): return False       # no member lost, none duplicated
        if n != norms[0] or hash(n) != hash(norms[0]): return False
        if normalize_type(n.source) != n: return False                                  # idempotent
    # (2) different typed member sets never collapse; equal typed sets are equal
    other = normalize_type(lit(c, d))
    if (typed_set((c, d)) == want) != (other == norms[0]): return False
    if other == norms[0] and hash(other) != hash(norms[0]): return False
    # (3) the real helper used by union merging
    m = _create_norm_literal([a, b, c, d])
    if norm_args_typed(m) != typed_set((a, b, c, d)) or len(m.args) != len(typed_set((a, b, c, d))): return False
    return True

LIT_LOADERS = {}
for _a in range(len(POOL)):
    for _b in range(len(POOL)):
        for _s in (True, False):
            LIT_LOADERS[(_a, _b, _s)] = (Retort(strict_coercion=_s).get_loader(lit(POOL[_a], POOL[_b])),
                                         Retort(strict_coercion=_s).get_loader(Union[lit(POOL[_b]), lit(POOL[_a])]))

def lit_loader_kernel(sa, sb, d, strict):
    """loaders built (in fresh retorts) from two spellings of the same literal type accept exactly the same data"""
    ia, ib = pick(sa, len(POOL)), pick(sb, len(POOL))
    a, b = POOL[ia], POOL[ib]
    l1, l2 = LIT_LOADERS[(ia, ib, strict)]
    o1, o2 = outcome(l1, d), outcome(l2, d)
    if o1[0] != o2[0]: return False
    if o1[0] == "ok" and not same(o1[2], o2[2]): return False
    if strict and o1[0] == "ok" and (type(d), d) not in typed_set((a, b)) and not isinstance(d, (bytes, str)): return False
    return True
'''

FAMILY_SETUP = '''
T_ = TypeVar("T_")
B_ = TypeVar("B_", bound=int)
C_ = TypeVar("C_", int, str)
class GenAny(Generic[T_]): pass
class GenBound(Generic[B_]): pass
class GenConstr(Generic[C_]): pass
NT = typing.NewType("NT", int)
type _Box[T] = list[T]
type _PairA[K, V] = dict[K, V]
def _ann_unhash(v): return typing.Annotated[int, {"a": v}]
def _mk_same(): return type("SameName", (), {})
_SameName1, _SameName2 = _mk_same(), _mk_same()
_SameNT1, _SameNT2 = typing.NewType("SameNT", int), typing.NewType("SameNT", str)

# groups of hints that denote the same type (by construction); different groups denote different types
GROUPS = {
 "opt_int": [Optional[int], Union[int, None], Union[None, int], int | None, None | int, Union[int, None, int], Union[Union[int, None], None]],
 "int_str": [Union[int, str], Union[str, int], int | str, str | int, Union[int, Union[str, int]], Union[Union[int], Union[str]]],
 "int_str_none": [Union[int, str, None], Optional[Union[str, int]], Union[Optional[int], str], int | str | None],
 "list_int": [List[int], list[int]],
 "list_str": [List[str], list[str]],
 "dict_str_int": [Dict[str, int], dict[str, int]],
 "tuple_var_int": [Tuple[int, ...], tuple[int, ...]],
 "tuple_int_str": [Tuple[int, str], tuple[int, str]],
 "seq_int": [typing.Sequence[int], collections.abc.Sequence[int]],
 "lit01": [Literal[0, 1], Literal[1, 0], Union[Literal[0], Literal[1]], Union[Literal[1], Literal[0], Literal[1]]],
 "litFT": [Literal[False, True], Literal[True, False], Union[Literal[True], Literal[False]]],
 "lit0": [Literal[0], Union[Literal[0], Literal[0]]],
 "litF": [Literal[False]],
 "lit0F": [Literal[0, False], Literal[False, 0], Union[Literal[0], Literal[False]], Union[Literal[False], Literal[0]]],
 "lit1T": [Literal[1, True], Union[Literal[True], Literal[1]]],
 "none": [None, type(None), Literal[None]],
 "lit_a_none": [Literal["a", None], Optional[Literal["a"]], Union[Literal["a"], None], Union[None, Literal["a"]]],
 "lit_a_int": [Union[Literal["a"], int], Union[int, Literal["a"]]],
 "lit_ab_none": [Literal["a", "b", None], Optional[Literal["a", "b"]], Union[Literal["a", None], Literal["b"]], Union[Literal["a"], Literal["b"], None],
                 Union[Literal["b"], Literal[None, "a"]]],
 "lit_01_none": [Literal[0, 1, None], Optional[Literal[0, 1]], Union[Literal[0, None], Literal[1]], Union[None, Literal[1, 0]]],
 "lit_1_none": [Literal[1, None], Optional[Literal[1]]],
 "lit_0_none": [Literal[0, None], Optional[Literal[0]], Union[Literal[0], None]],
 "lit_F_none": [Literal[False, None], Optional[Literal[False]]],
 "lit_empty_none": [Literal["", None], Optional[Literal[""]]],
 "list_bare": [list, List, List[Any], list[Any]],
 "dict_bare": [dict, Dict, Dict[Any, Any], dict[Any, Any]],
 "tuple_bare": [tuple, Tuple, Tuple[Any, ...], tuple[Any, ...]],
 "seq_bare": [typing.Sequence, collections.abc.Sequence, typing.Sequence[Any], collections.abc.Sequence[Any]],
 "iterable_bare": [typing.Iterable, collections.abc.Iterable, typing.Iterable[Any]],
 "collection_bare": [typing.Collection, typing.Collection[Any], collections.abc.Collection[Any]],
 "mutseq_bare": [typing.MutableSequence, collections.abc.MutableSequence, typing.MutableSequence[Any]],
 "absset_bare": [typing.AbstractSet, collections.abc.Set, typing.AbstractSet[Any]],
 "mutset_bare": [typing.MutableSet, collections.abc.MutableSet[Any]],
 "mapping_bare": [typing.Mapping, collections.abc.Mapping, typing.Mapping[Any, Any], collections.abc.Mapping[Any, Any]],
 "mutmapping_bare": [typing.MutableMapping, collections.abc.MutableMapping, typing.MutableMapping[Any, Any]],
 "set_bare": [set, typing.Set, typing.Set[Any], set[Any]],
 "frozenset_bare": [frozenset, typing.FrozenSet, frozenset[Any]],
 "deque_bare": [collections.deque, typing.Deque, typing.Deque[Any], collections.deque[Any]],
 "defaultdict_bare": [collections.defaultdict, typing.DefaultDict, typing.DefaultDict[Any, Any]],
 "gen_any": [GenAny, GenAny[Any]],
 "gen_bound": [GenBound, GenBound[int]],
 "gen_constr": [GenConstr, GenConstr[Union[int, str]], GenConstr[Union[str, int]]],
 "int": [int, Union[int], Union[int, int]],
 "bool": [bool],
 "str": [str],
 "list_opt_int": [List[Optional[int]], list[Union[None, int]], List[int | None]],
 "opt_list_int": [Optional[List[int]], Union[list[int], None], list[int] | None],
 "dict_str_list": [Dict[str, List[int]], dict[str, list[int]]],
 "annotated": [typing.Annotated[int, "m"]],
 "newtype": [NT],
 # members whose rendered sort keys coincide (1 / "1", equal class names, spelling of a nested hint): nested, because the top-level lru_cache of
 # normalize_type is keyed by typing's own order-insensitive Union equality
 "samekey_lit": [List[Union[list[Literal[1]], list[Literal["1"]]]], list[Union[list[Literal["1"]], list[Literal[1]]]]],
 "samekey_ann": [List[Union[typing.Annotated[int, 1], typing.Annotated[int, "1"]]], list[Union[typing.Annotated[int, "1"], typing.Annotated[int, 1]]]],
 "samekey_cls": [List[Union[_SameName1, _SameName2]], list[Union[_SameName2, _SameName1]]],
 "samekey_newtype": [List[Union[_SameNT1, _SameNT2]], list[Union[_SameNT2, _SameNT1]]],
 "samekey_callable": [List[Union[typing.Callable[[List[int]], int], typing.Callable[[list[int]], str]]], list[Union[typing.Callable[[list[int]], str], typing.Callable[[List[int]], int]]]],
 # generic PEP 695 aliases: each parametrisation is a type of its own; evaluated twice it is the same type
 "alias_box_int": [_Box[int], _Box[int]],
 "alias_box_str": [_Box[str]],
 "opt_alias_box_int": [Optional[_Box[int]], Union[None, _Box[int]], _Box[int] | None],
 "list_alias_box_str": [List[_Box[str]], list[_Box[str]]],
 "alias_box_bare": [_Box],
 "alias_pair_is": [_PairA[int, str], _PairA[int, str]],
 "alias_pair_si": [_PairA[str, int]],
 # Annotated metadata that is not hashable: two evaluations of one hint are equal AND hash alike; other metadata is another type
 "ann_unhash_a1": [_ann_unhash(1), _ann_unhash(1)],
 "ann_unhash_a2": [_ann_unhash(2)],
 "ann_unhash_list": [typing.Annotated[int, [1]], typing.Annotated[int, [1]]],
 "samekey_dict": [Dict[str, Union[Tuple[Literal[0]], Tuple[Literal["0"]]]], dict[str, Union[tuple[Literal["0"]], tuple[Literal[0]]]]],
}
NORMS = {g: [normalize_type(t) for t in ts] for g, ts in GROUPS.items()}

def nat_check(kind, g1, i, g2, j):
    a, b = NORMS[g1][i], NORMS[g2][j]
    if kind == "same":
        return a == b and hash(a) == hash(b)
    if kind == "diff":
        return a != b
    if kind == "idem":
        return normalize_type(a.source) == a and hash(normalize_type(a.source)) == hash(a)
    raise KeyError(kind)
'''

NAT_CODE = '''
def nat_congruence():
    import time
    ev, bad = 0, []
    names = list(GROUPS)
    for g in names:
        for i in range(len(GROUPS[g])):
            ev += 1
            if not nat_check("idem", g, i, g, i): bad.append({"kind": "'idem'", "g1": repr(g), "i": str(i), "g2": repr(g), "j": str(i)})
            for j in range(len(GROUPS[g])):
                ev += 1
                if not nat_check("same", g, i, g, j): bad.append({"kind": "'same'", "g1": repr(g), "i": str(i), "g2": repr(g), "j": str(j)})
    for x in range(len(names)):
        for y in range(len(names)):
            if x == y: continue
            for i in range(len(GROUPS[names[x]])):
                for j in range(len(GROUPS[names[y]])):
                    ev += 1
                    if not nat_check("diff", names[x], i, names[y], j):
                        bad.append({"kind": "'diff'", "g1": repr(names[x]), "i": str(i), "g2": repr(names[y]), "j": str(j)})
    return {"status": "REFUTED" if bad else "CONFIRMED", "cexs": bad[:5], "evaluations": ev,
            "note": "labelled enumeration (no data dimension): every pair of the rewrite family"}

def chk_congruence(kind, g1, i, g2, j):
    return nat_check(kind, g1, i, g2, j)
'''

BEHAV_SETUP = '''
Atom = Union[None, bool, int, str]
STRS = ("", "1", "a", "k")
def wrap(kind, d, e):
    if kind == 0: return d
    if kind == 1: return [d]
    if kind == 2: return [d, e]
    if kind == 3: return {"k": d}
    if kind == 4: return (d, e)
    if kind == 5: return []
    return {"k": [d]}

LOADERS = {}
DUMPERS = {}
BUILD_ERRORS = []
for _g, _ts in GROUPS.items():
    if _g in ("gen_any", "gen_bound", "gen_constr", "samekey_cls", "samekey_callable", "alias_box_bare", "ann_unhash_a1", "ann_unhash_a2", "ann_unhash_list"):
        continue
    for _i, _t in enumerate(_ts):
        for _strict in (True, False):
            try:
                LOADERS[(_g, _i, _strict)] = Retort(strict_coercion=_strict).get_loader(_t)      # fresh retort each: no shared cache
            except Exception as _e:
                BUILD_ERRORS.append((_g, _i, _strict, repr(_e)))

def behav(g, kind, d, e):
    """every spelling of the group yields a loader with the same acceptance and the same results"""
    data = wrap(kind, d, e)
    for strict in (True, False):
        base = outcome(LOADERS[(g, 0, strict)], data)
        for i in range(1, len(GROUPS[g])):
            o = outcome(LOADERS[(g, i, strict)], data)
            if o[0] != base[0]: return False
            if o[0] == "ok" and not same(o[2], base[2]): return False
    return True
'''

PRED_CODE = '''
from adaptix import loader, dumper
from adaptix._internal.provider.loc_stack_filtering import LocStack, create_loc_stack_checker
from adaptix._internal.provider.location import TypeHintLoc
def _row(p):
    # predicate p against every request spelling: True / False, or the class of the creation error
    try:
        ch = create_loc_stack_checker(p)
    except Exception as e:
        return ("creation", type(e).__name__)
    out = []
    for g2, ts in GROUPS.items():
        for t in ts:
            try: out.append(bool(ch.check_loc_stack(None, LocStack(TypeHintLoc(type=t)))))
            except Exception as e: out.append(type(e).__name__)
    return tuple(out)
def _facade(p, t):
    # the same question through the public API: does loader(p, marker) / dumper(p, marker) serve a request for t ?
    try:
        r = Retort(recipe=[loader(p, lambda d: "MARK"), dumper(p, lambda d: "MARK")])
    except Exception as e:
        return ("creation", type(e).__name__)
    res = []
    for get in (r.get_loader, r.get_dumper):
        try: res.append(get(t)(None) == "MARK")
        except Exception as e: res.append(False)
    return tuple(res)
def pred_rows(g):
    return [_row(p) for p in GROUPS[g]]
def chk_pred_spelling(g, i):
    rows = pred_rows(g)
    # the spelling of the PREDICATE does not matter -- except that an unsubscripted generic is the documented wildcard predicate ("matches any
    # parametrisation", C10) and is therefore compared with the other unsubscripted spellings only
    bare = [not typing.get_args(p) for p in GROUPS[g]]
    ref = next(j for j in range(len(bare)) if bare[j] == bare[i]) if g.endswith("_bare") or g.startswith("gen_") else 0
    if rows[i] != rows[ref]: return False
    if rows[i][0] != "creation":
        k = 0
        for g2, ts in GROUPS.items():                            # nor does the spelling of the REQUEST
            if len(set(rows[i][k:k + len(ts)])) != 1: return False
            k += len(ts)
    ts = GROUPS[g]
    return _facade(ts[i], ts[0]) == _facade(ts[0], ts[0]) == _facade(ts[0], ts[i]) and (_facade(ts[0], ts[0])[0] == "creation" or _facade(ts[i], ts[-1]) == (True, True))
def nat_pred_spelling():
    ev, bad = 0, []
    for g in GROUPS:
        if g.startswith("ann_unhash"): continue          # locations are hashed by the retort: hints with unhashable metadata are outside what a Retort accepts (not claimed)
        for i in range(len(GROUPS[g])):
            ev += 1
            if not chk_pred_spelling(g, i): bad.append({"g": repr(g), "i": str(i)})
    return {"status": "REFUTED" if bad else "CONFIRMED", "cexs": bad[:5], "evaluations": ev,
            "note": "labelled enumeration (no data dimension): predicate spelling x request spelling match matrix"}
'''

GEN_CODE = '''
import random, collections
ATOMS = [int, str, bool, type(None), bytes, float, Any]
LITS = [0, 1, False, True, "a", "", b"x", None]
# a term is a tree: ("atom", t) | ("lit", (values)) | ("union", [terms]) | (ctor, [terms])
CTORS = {"list": 1, "set": 1, "fset": 1, "tuplev": 1, "tuple2": 2, "dict": 2, "seq": 1, "map": 2, "deque": 1, "iter": 1}
def gen(d=0):
    r = random.random()
    if d >= 3 or r < 0.3: return ("atom", random.choice(ATOMS))
    if r < 0.4: return ("lit", tuple(random.sample(LITS, random.randint(1, 3))))
    if r < 0.6: return ("union", [gen(d + 1) for _ in range(random.randint(2, 3))])
    c = random.choice(list(CTORS))
    return (c, [gen(d + 1) for _ in range(CTORS[c])])
def hashable_ok(t):  # set elements / dict keys need no constraint at the type level
    return True
def render(t, style):
    """style: random source for spelling choices -> a typing object denoting the same type"""
    k = t[0]
    if k == "atom":
        a = t[1]
        if a is type(None) and style.random() < 0.5: return None
        return a
    if k == "lit":
        vals = list(t[1])
        style.shuffle(vals)
        if len(vals) > 1 and style.random() < 0.4:
            cut = style.randint(1, len(vals) - 1)
            return Union[Literal[tuple(vals[:cut])], Literal[tuple(vals[cut:])]]
        if style.random() < 0.2: vals = vals + [vals[0]]
        return Literal[tuple(vals)]
    if k == "union":
        parts = [render(x, style) for x in t[1]]
        style.shuffle(parts)
        if style.random() < 0.3: parts = parts + [parts[0]]
        if len(parts) > 2 and style.random() < 0.4:
            parts = [Union[tuple(parts[:2])]] + parts[2:]
        if style.random() < 0.3:
            try:
                out = parts[0]
                for p in parts[1:]: out = out | p
                return out
            except TypeError: pass
        return Union[tuple(parts)]
    args = [render(x, style) for x in t[1]]
    b = style.random() < 0.5
    if k == "list": return (list if b else List)[args[0]]
    if k == "set": return (set if b else Set)[args[0]]
    if k == "fset": return (frozenset if b else FrozenSet)[args[0]]
    if k == "tuplev": return (tuple if b else Tuple)[args[0], ...]
    if k == "tuple2": return (tuple if b else Tuple)[args[0], args[1]]
    if k == "dict": return (dict if b else Dict)[args[0], args[1]]
    if k == "seq": return (collections.abc.Sequence if b else typing.Sequence)[args[0]]
    if k == "map": return (collections.abc.Mapping if b else typing.Mapping)[args[0], args[1]]
    if k == "deque": return (collections.deque if b else typing.Deque)[args[0]]
    if k == "iter": return (collections.abc.Iterable if b else typing.Iterable)[args[0]]
    raise KeyError(k)
def canon(t):
    """semantic canonical form of a term (for deciding whether two TERMS denote different types)"""
    k = t[0]
    if k == "atom": return ("atom", t[1])
    if k == "lit":
        vals = {(type(v), v) for v in t[1]}
        parts = set()
        if (type(None), None) in vals: parts.add(("atom", type(None))); vals.discard((type(None), None))
        if vals: parts.add(("lit", frozenset(vals)))
        return ("union", frozenset(parts)) if len(parts) > 1 else next(iter(parts))
    if k == "union":
        parts, lits = set(), set()
        def add(c):
            if c[0] == "union":
                for x in c[1]: add(x)
            elif c[0] == "lit": lits.update(c[1])
            else: parts.add(c)
        for x in t[1]: add(canon(x))
        if lits: parts.add(("lit", frozenset(lits)))
        if ("atom", Any) in parts: pass
        return ("union", frozenset(parts)) if len(parts) > 1 else next(iter(parts))
    return (k, tuple(canon(x) for x in t[1]))

def _gen_terms(n, seed):
    random.seed(seed)
    return [gen() for _ in range(n)]
def chk_congruence_generated(i, n, seed):
    terms = _gen_terms(n, seed)
    t = terms[i]
    try:
        a, b = render(t, random.Random(i)), render(t, random.Random(i + 10 ** 6))
    except TypeError:
        return True                      # the spelling is not expressible (e.g. None | None)
    na, nb = normalize_type(a), normalize_type(b)
    if na != nb or hash(na) != hash(nb): return False
    if normalize_type(na.source) != na: return False
    u = terms[(i * 7 + 1) % n]
    if canon(u) != canon(t):
        try: ru = render(u, random.Random(i))
        except TypeError: return True
        if normalize_type(ru) == na: return False
    return True
def nat_congruence_generated():
    n, seed = GEN_N, GEN_SEED
    bad = []
    for i in range(n):
        try: ok = chk_congruence_generated(i, n, seed)
        except Exception: ok = False
        if not ok: bad.append({"i": str(i), "n": str(n), "seed": str(seed)})
    return {"status": "REFUTED" if bad else "CONFIRMED", "cexs": bad[:5], "evaluations": n * 3,
            "note": "labelled native enumeration of a seeded GENERATED family: random type terms (depth <= 3) in two random spellings each"}
'''


def build(tier, seed):
    quick = tier == "quick"
    tmo = 90 if quick else 300
    m = Module("c15_literal").pre(SETUP)
    k = 4 if quick else 6
    for strict in (True, False):
        m.ob(f"lit_loader_{'strict' if strict else 'lax'}", "sa: int, sb: int, d: Union[None, bool, int, str]",
             f"return lit_loader_kernel(sa, sb, d, {strict})",
             pre=[f"0 <= sa < {k}", f"0 <= sb < {k}", "not isinstance(d, str) or len(d) <= 1"], timeout=tmo,
             family="literal kernel: loaders of two spellings agree on a symbolic datum",
             bounds="2 members from the pool; datum None|bool|int|str(len<=1) symbolic")
    m.nat("lit_full_pool", '''
def nat_lit_full_pool():
    ev, bad = 0, []
    n = len(POOL)
    for a in range(n):
        for b in range(n):
            for c in range(n):
                ev += 1
                if not lit_kernel(a, b, c): bad.append({"sa": str(a), "sb": str(b), "sc": str(c), "sd": "0"})
                for d in range(n):
                    ev += 1
                    if not lit_pairs(a, b, c, d): bad.append({"sa": str(a), "sb": str(b), "sc": str(c), "sd": str(d)})
    return {"status": "REFUTED" if bad else "CONFIRMED", "cexs": bad[:5], "evaluations": ev, "note": "labelled enumeration of the whole pool"}

def chk_lit_full_pool(sa, sb, sc, sd):
    return lit_kernel(sa, sb, sc) and lit_pairs(sa, sb, sc, sd)
''', timeout=300, family="literal kernel (labelled enumeration of the whole 8-value pool)", bounds="8**3 + 8**4 combinations, native")
    mf = Module("c15_family").pre(SETUP).pre(FAMILY_SETUP)
    mf.nat("congruence", NAT_CODE, timeout=120, family="rewrite congruence (labelled enumeration)",
           bounds="51 groups of equivalent spellings (union reorder/nest/duplicate/|, Optional, aliases vs builtin generics, bare generics, "
                  "literal merge/split, Literal[None]); equal+hash-equal+idempotent inside a group, unequal across groups")
    mf.nat("pred_spelling", PRED_CODE, timeout=300, family="equivalent spellings are equivalent predicates (labelled enumeration)",
           bounds="every spelling of the 51 groups as the predicate of loader()/dumper() against every spelling as the requested type: the match matrix "
                  "depends on neither spelling (checker level), and the marker provider is selected through Retort.get_loader/get_dumper (facade level)")
    gen_n = 1500 if quick else 6000
    mf.pre(f"GEN_N, GEN_SEED = {gen_n}, {int(seed) % 100000 + 21}")
    mf.nat("congruence_generated", GEN_CODE, timeout=300, family="rewrite congruence over a GENERATED family of type terms (labelled enumeration, seeded)",
           bounds=f"{gen_n} random terms of depth <= 3 over 7 atoms, Literal members from an 8-value pool, unions and 10 generic constructors; two random spellings each "
                  "(member order, nesting, duplicates, |, Literal split / merge, typing alias vs builtin / collections.abc generic, None vs NoneType): equal, hash-equal, "
                  "idempotent; a term of another meaning never collapses with it")
    mb = Module("c15_behaviour").pre(SETUP).pre(FAMILY_SETUP).pre(BEHAV_SETUP)
    mb.ob("builds", "x: int", "return not BUILD_ERRORS", timeout=20, family="behavioural equivalence", bounds="loader creation for every spelling")
    groups = ["opt_int", "int_str", "int_str_none", "list_int", "list_str", "dict_str_int", "tuple_var_int", "tuple_int_str", "seq_int",
              "lit01", "litFT", "lit0", "lit0F", "lit1T", "none", "lit_a_none", "lit_a_int", "lit_ab_none", "lit_01_none", "lit_1_none", "lit_0_none", "lit_F_none", "lit_empty_none", "list_bare", "dict_bare", "tuple_bare",
              "int", "list_opt_int", "opt_list_int", "dict_str_list",
              "seq_bare", "iterable_bare", "collection_bare", "mutseq_bare", "absset_bare", "mutset_bare", "mapping_bare", "mutmapping_bare", "set_bare", "frozenset_bare", "deque_bare", "defaultdict_bare"]
    for g in groups:
        mb.ob(f"behav_{g}", "kind: int, d: Atom, e: Atom", f"return behav({g!r}, kind, d, e)",
              pre=["0 <= kind <= 6", "not isinstance(d, str) or d in STRS", "not isinstance(e, str) or e in STRS",
                   "not isinstance(d, int) or -2 <= d <= 3", "not isinstance(e, int) or -2 <= e <= 3"],
              timeout=tmo, family="behavioural equivalence: loaders of equivalent spellings on a symbolic datum",
              bounds="datum: atom None|bool|int in [-2,3]|str in ('', '1', 'a', 'k'), bare or in list/dict/tuple wrappers (7 shapes), strict and lax")
    # bare generics in the position of a model / base class: the hierarchy cases of C16 that leave a generic unsubscripted
    from props.C16 import build as build_c16
    extra = []
    for m16 in build_c16(tier, seed).modules:
        m16.obs = [o for o in m16.obs if o.name == "creation" or "bare" in o.name.lower()]
        extra.append(m16)
    return Plan("C15", [m, mf, mb] + extra,
                assumptions=["groups of equivalent spellings are equivalent by construction (typing semantics)"],
                bounds={"literal pool": str(k), "rewrite family": "51 groups"},
                outside=["type terms outside the family grammar"])
